"""C05 — correspondence + search for the connection maps (dense, direct, lateral, conv2d).

Real side: real `LinearDense` / `LinearDirect` / `LinearLateral` / `Conv2D` objects (no delays in
any forward; a delayed `LinearLateral` only for the masked delay setter) on real synapses
(`DeltaCurrent`, `DeltaPlusCurrent` with and without injected current).  All tensors are
integer valued, so every map is exact in float32 and outputs are compared with `==`.
Protocol lines are those of `lean/drivers/C05.lean`; the driver answers every line with the
code-shaped model's result (unfold → matmul …) and the specification's result (direct
cross-correlation, `x Wᵀ + b`, …).
"""
from __future__ import annotations

import itertools
import math

import torch
import torch.nn.functional as F

import inferno  # noqa: F401
from inferno.neural import (Conv2D, DeltaCurrent, DeltaPlusCurrent, LinearDense, LinearDirect,
                            LinearLateral)

from runner import Exploration
import seqcheck

SPEC = {
    "prop": "C05",
    "lean_targets": ["InfernoVerif.Props.C05", "InfernoVerif.Props.C05Glue", "InfernoVerif.Props.C05GlueProg", "InfernoVerif.Gen.Dispatch"],
    "translate": ["ConvSites", "ConnProg"],
    "driver_targets": ["InfernoVerif.Model.Conn", "InfernoVerif.Drv.Proto", "InfernoVerif.Gen.Dispatch"],
    "prop_files": ["InfernoVerif/Props/C05.lean", "InfernoVerif/Props/C05Glue.lean", "InfernoVerif/Props/C05GlueProg.lean"],
    "lemma_files": ["InfernoVerif/Lemmas/Conn.lean"],
    "model_files": ["InfernoVerif/Model/Conn.lean"],
    "driver": "drivers/C05.lean",
    "assumptions": [
        "no delays in any forward pass (delay=None); delayed reads are C06's subject",
        "tensor values are finite: the lateral mask is applied by multiplication (value * mask), so assigning inf/NaN "
        "leaves NaN on the diagonal (probed and recorded in the evidence as lateral_nonfinite_probe, not a generated case)",
        "integer-valued float32 tensors (exact arithmetic); theorems are over an arbitrary commutative (semi)ring, "
        "float rounding of non-integer data is outside the statement",
        "torch primitives F.linear / F.unfold / F.fold / matmul / einops.rearrange are modelled by their documented index "
        "definitions and validated by this correspondence check only",
        "updater applications use the default accumulator (sum reduction, p - n binding); the Lean invariant covers any accumulator function",
        "device CPU",
    ],
}
DRIVER = "drivers/C05.lean"
LCM = 2520  # lcm(1..9): like_input of arbitrary data divides by window counts <= KH*KW <= 9


# ---------------------------------------------------------------------------------------------
# formatting

def shp(tok):
    return () if tok == "s" else tuple(int(x) for x in tok.split("x"))


def shp_s(shape):
    return "s" if len(shape) == 0 else "x".join(str(int(x)) for x in shape)


def ints(tok):
    return [] if tok in ("", "-") else [int(x) for x in tok.split(",")]


def vals_s(t):
    out = []
    for v in t.detach().to(torch.float64).reshape(-1).tolist():
        if v != v:
            out.append("?")
        elif float(v).is_integer():
            out.append(str(int(v)))
        else:
            out.append(repr(v))
    return ",".join(out)


def ten_s(t):
    return shp_s(t.shape) + ":" + vals_s(t)


def T(vals, shape):
    return torch.tensor(vals, dtype=torch.float32).reshape(shape)


# ---------------------------------------------------------------------------------------------
# real-side executor

class Real:
    def __init__(self):
        self.conn = None
        self.kind = None
        self.syn = ("plus", 1, 1.0)

    def exec(self, line):
        tok = line.split()
        try:
            return self._exec(tok)
        except AssertionError:
            raise
        except Exception as e:  # the real code raised where the specification defines a value
            return f"err {type(e).__name__}"

    # -- construction
    def _synapse(self):
        kind, q, dt = self.syn
        cls = DeltaCurrent if kind == "delta" else DeltaPlusCurrent
        return cls.partialconstructor(float(q) * dt), dt

    def _begin(self, tok):
        args = [t for t in tok[2:] if not t.startswith("syn=")]
        syn = [t for t in tok[2:] if t.startswith("syn=")]
        if syn:
            k, q, dt = syn[0][4:].split(":")
            self.syn = (k, int(q), float(dt))
        else:
            self.syn = ("plus", 1, 1.0)
        ctor, dt = self._synapse()
        self.kind = tok[1]
        if self.kind == "dense":
            self.inshape, self.outshape = shp(args[0]), shp(args[1])
            self.conn = LinearDense(self.inshape, self.outshape, dt, synapse=ctor, bias=args[2] == "T", delay=None,
                                    batch_size=1, weight_init=torch.zeros_like, bias_init=torch.zeros_like)
        elif self.kind == "direct":
            self.inshape = self.outshape = shp(args[0])
            self.conn = LinearDirect(self.inshape, dt, synapse=ctor, bias=args[1] == "T", delay=None, batch_size=1,
                                     weight_init=torch.zeros_like, bias_init=torch.zeros_like)
        elif self.kind == "lateral":
            self.inshape = self.outshape = shp(args[0])
            self.conn = LinearLateral(self.inshape, dt, synapse=ctor, bias=args[1] == "T",
                                      delay=(2.0 * dt if args[2] == "T" else 0.0 if args[2] == "Z" else None), batch_size=1,
                                      weight_init=torch.zeros_like, bias_init=torch.zeros_like)
            self.conn.updater = self.conn.defaultupdater()
        elif self.kind == "conv":
            H, W, C, Fi, KH, KW, sh, sw, ph, pw, dh, dw = (int(a) for a in args[:12])
            self.conn = Conv2D(H, W, C, Fi, dt, (KH, KW), stride=(sh, sw), padding=(ph, pw), dilation=(dh, dw),
                               synapse=ctor, bias=args[12] == "T", delay=None, batch_size=1,
                               weight_init=torch.zeros_like, bias_init=torch.zeros_like)
            self.inshape, self.outshape = (C, H, W), tuple(self.conn.outshape)
            self.geom = (H, W, C, Fi, KH, KW, sh, sw, ph, pw, dh, dw)
        else:
            raise AssertionError(tok)
        assert tuple(self.conn.inshape) == tuple(self.inshape), (self.conn.inshape, self.inshape)
        return "ok"

    # -- feeding an effective integer current through the real synapse
    def _forward(self, B, x_eff):
        conn = self.conn
        if conn.batchsz != B:
            conn.batchsz = B
        kind, q, _dt = self.syn
        x = T(x_eff, (B, *self.inshape))
        if kind == "delta":
            assert all(v in (0, q) for v in x_eff), "delta synapse needs currents in {0,q}"
            out = conn(x / q)
        elif kind == "plus":
            assert all(v % q == 0 for v in x_eff)
            out = conn(x / q)
        else:  # inject
            spikes = (x.abs() % 2 == 1).to(torch.float32)
            out = conn(spikes, x - q * spikes)
        return x, out

    def _exec(self, tok):
        op = tok[0]
        if op == "begin":
            return self._begin(tok)
        conn = self.conn
        if op == "setw":
            conn.weight = T(ints(tok[1]), tuple(conn.weight.shape))
            return "ok"
        if op == "setb":
            v = ints(tok[1])
            conn.bias = T(v, (len(v),))
            return "ok"
        if op == "setd":
            n = math.prod(self.inshape)
            conn.delay = T(ints(tok[1]), (n, n))
            return "ok"
        if op in ("updw", "updd"):
            n = math.prod(self.inshape)
            name = "weight" if op == "updw" else "delay"
            if name not in conn.updater.names:
                return "ok"
            for part in ([] if tok[1] == "-" else tok[1].split(";")):
                setattr(conn.updater, name, (T(ints(part), (n, n)), None))
            for part in ([] if tok[2] == "-" else tok[2].split(";")):
                setattr(conn.updater, name, (None, T(ints(part), (n, n))))
            conn.update()
            return "ok"
        if op == "params":
            w = vals_s(conn.weight)
            b = "N" if conn.bias is None else vals_s(conn.bias)
            if self.kind == "lateral":
                d = "N" if conn.delay is None else vals_s(conn.delay)
                return f"w={w} d={d} b={b}"
            return f"w={w} b={b}"
        if op == "fwd":
            B = int(tok[1])
            x, out = self._forward(B, ints(tok[2]))
            note = ""
            cur = conn.syncurrent
            exp = conn.like_synaptic(x)
            if cur.shape != exp.shape or not torch.equal(cur, exp):
                note += " [synapse current != like_synaptic(fed current)]"
            m = ten_s(out) + note
            s = ten_s(out) + note
            if tuple(out.shape) != (B, *conn.outshape):
                s += f" [shape != (B,)+outshape {(B, *conn.outshape)}]"
            if self.kind == "conv":
                H, W, C, Fi, KH, KW, sh, sw, ph, pw, dh, dw = self.geom
                ref = F.conv2d(x, conn.weight, conn.bias, stride=(sh, sw), padding=(ph, pw), dilation=(dh, dw))
                if ref.shape != out.shape or not torch.equal(ref, out):
                    s += " [!= torch.nn.functional.conv2d]"
            return (m, s)
        if op == "like":
            B = int(tok[1])
            if conn.batchsz != B:
                conn.batchsz = B
            x = T(ints(tok[2]), (B, *self.inshape))
            syn = conn.like_synaptic(x)
            back = conn.like_input(syn)
            r = f"syn={shp_s(syn.shape)} back={ten_s(back)}"
            if tuple(syn.shape) != tuple(conn.synapse.spike.shape):
                r += f" [like_synaptic shape != synapse shape {tuple(conn.synapse.spike.shape)}]"
            return r
        if op == "geom":
            return f"out={conn.outheight}x{conn.outwidth}"
        if op == "unfold":
            B = int(tok[1])
            return ten_s(conn.like_synaptic(T(ints(tok[2]), (B, *self.inshape))))
        if op == "likeinput":
            B = int(tok[1])
            n, l = conn.synapse.shape
            return ten_s(conn.like_input(T(ints(tok[2]), (B, n, l))))
        if op == "recv":
            B, R = int(tok[1]), int(tok[2])
            if self.kind == "conv":
                n, l = conn.synapse.shape
                pre_shape = (B, n, l) + ((R,) if R else ())
            else:
                pre_shape = (B, math.prod(self.inshape)) + ((R,) if R else ())
            pre = conn.presyn_receptive(T(ints(tok[3]), pre_shape))
            post = conn.postsyn_receptive(T(ints(tok[4]), (B, *conn.outshape)))
            m = f"pre={ten_s(pre)} post={ten_s(post)}"
            wshape = tuple(conn.weight.shape)
            try:
                bc = tuple(torch.broadcast_shapes(tuple(post.shape[1:-1]), tuple(pre.shape[1:-1])))
                torch.broadcast_shapes((post.shape[-1],), (pre.shape[-1],))
                ok = "ok" if (bc == wshape and pre.shape[0] == B and post.shape[0] == B) else shp_s(bc)
            except RuntimeError:
                ok = "incompatible"
            if ok == "ok":
                outer = ten_s((post * pre).sum(-1))     # what the trainers compute from the two views
            else:
                outer = "-"
            return (m, f"wshape={shp_s(wshape)} bc={ok} outer={outer}")
        raise AssertionError(tok)


# ---------------------------------------------------------------------------------------------
# generators

def csv(v):
    return ",".join(str(int(x)) for x in v) if len(v) else "-"


def rints(rng, n, lo, hi):
    return [rng.randint(lo, hi) for _ in range(n)]


def b(x):
    return "T" if x else "F"


def rand_syn(rng):
    kind = rng.choice(["delta", "plus", "plus", "inject", "inject"])
    q, dt = rng.choice([(1, 1.0), (2, 1.0), (4, 0.5), (1, 2.0), (2, 0.5)])
    return kind, q, dt


def currents(rng, syn, n):
    kind, q, _ = syn
    if kind == "delta":
        return [q * rng.randint(0, 1) for _ in range(n)]
    if kind == "plus":
        return [q * rng.randint(-3, 3) for _ in range(n)]
    return rints(rng, n, -6, 6)


def randshape(rng, maxdims, maxsize, maxprod):
    while True:
        s = tuple(rng.randint(1, maxsize) for _ in range(rng.randint(1, maxdims)))
        if math.prod(s) <= maxprod:
            return s


def syn_tok(syn):
    return f"syn={syn[0]}:{syn[1]}:{syn[2]}"


def linear_case(rng, kind=None, boundary=None):
    kind = kind or rng.choice(["dense", "dense", "direct", "lateral"])
    syn = rand_syn(rng)
    biased = rng.random() < 0.5
    if boundary:
        inshape, outshape, biased = boundary
    else:
        inshape = randshape(rng, 3, 4, 12 if kind != "lateral" else 6)
        outshape = randshape(rng, 3, 4, 12)
    if kind == "dense":
        lines = [f"begin dense {shp_s(inshape)} {shp_s(outshape)} {b(biased)} {syn_tok(syn)}"]
        M, N = math.prod(inshape), math.prod(outshape)
        wn = N * M
    elif kind == "direct":
        lines = [f"begin direct {shp_s(inshape)} {b(biased)} {syn_tok(syn)}"]
        M = N = wn = math.prod(inshape)
    else:
        lines = [f"begin lateral {shp_s(inshape)} {b(biased)} F {syn_tok(syn)}"]
        M = N = math.prod(inshape)
        wn = M * M
    for _ in range(rng.randint(2, 4)):
        lines.append("setw " + csv(rints(rng, wn, -4, 4)))
        if rng.random() < 0.7:
            lines.append("setb " + csv(rints(rng, N, -9, 9)))
        lines.append("params")
        for _ in range(rng.randint(1, 3)):
            B = rng.randint(1, 4)
            lines.append(f"fwd {B} " + csv(currents(rng, syn, B * M)))
        B = rng.randint(1, 3)
        lines.append(f"like {B} " + csv(rints(rng, B * M, -9, 9)))
        R = rng.choice([0, 0, N if kind != "direct" else 1, 1])
        lines.append(f"recv {B} {R} " + csv(rints(rng, B * M * max(R, 1), -5, 5)) + " " + csv(rints(rng, B * N, -5, 5)))
    return lines


def _canon_line(line: str) -> str:
    if line.startswith("begin lateral "):
        t = line.split(" ")
        if len(t) > 4 and t[4] == "Z":
            t[4] = "T"
        return " ".join(t)
    return line


seqcheck.DRIVER_MAP["drivers/C05.lean"] = _canon_line


def lateral_seq_case(rng, n_ops=None, shape=None):
    shape = shape or randshape(rng, 2, 3, 5)
    n = math.prod(shape)
    delayed = rng.random() < 0.7
    biased = rng.random() < 0.4
    syn = rand_syn(rng)
    # "Z": constructed with `delay=0.0` — the delay parameter exists (and must stay masked) although no delay is in effect yet;
    # for the model this is a connection with a delay parameter ("T")
    dtag = "Z" if (delayed and rng.random() < 0.3) else b(delayed)
    lines = [f"begin lateral {shp_s(shape)} {b(biased)} {dtag} {syn_tok(syn)}", "params"]

    def parts(lo, hi):
        k = rng.choice([0, 1, 1, 2, 3])
        return ";".join(csv(rints(rng, n * n, lo, hi)) for _ in range(k)) or "-"

    for _ in range(n_ops or rng.randint(4, 14)):
        op = rng.choice(["setw", "setw", "updw", "updw", "setd", "updd", "setb"])
        if op in ("setd", "updd") and not delayed and rng.random() < 0.6:
            op = "updw"
        if op == "setw":
            # full matrices, identity-heavy matrices, constants: whatever is assigned
            style = rng.random()
            if style < 0.6:
                v = rints(rng, n * n, -9, 9)
            elif style < 0.8:
                c = rng.randint(1, 9)
                v = [c if i // n == i % n else 0 for i in range(n * n)]
            else:
                v = [rng.randint(1, 9)] * (n * n)
            lines.append("setw " + csv(v))
        elif op == "setd":
            lines.append("setd " + csv(rints(rng, n * n, 0, 2) if rng.random() < 0.7 else [2] * (n * n)))
        elif op == "updw":
            lines.append(f"updw {parts(0, 6)} {parts(0, 6)}")
        elif op == "updd":
            if not delayed:
                continue
            lines.append(f"updd {parts(0, 2)} {parts(0, 1)}")
        elif op == "setb":
            lines.append("setb " + csv(rints(rng, n, -9, 9)))
        lines.append("params")
        if not delayed and rng.random() < 0.3:
            B = rng.randint(1, 3)
            lines.append(f"fwd {B} " + csv(currents(rng, syn, B * n)))
    return lines


def outsize(size, p, d, k, s):
    return math.floor((size + 2 * p - d * (k - 1) - 1) / s + 1)


def conv_case(rng, geom, C=None, Fi=None, full=True):
    H, W, KH, KW, sh, sw, ph, pw, dh, dw = geom
    C = C or rng.choice([1, 2, 2, 3])
    Fi = Fi or rng.choice([1, 2, 3])
    OH, OW = outsize(H, ph, dh, KH, sh), outsize(W, pw, dw, KW, sw)
    assert OH >= 1 and OW >= 1
    syn = rand_syn(rng)
    biased = rng.random() < 0.5
    N, L = C * KH * KW, OH * OW
    lines = [f"begin conv {H} {W} {C} {Fi} {KH} {KW} {sh} {sw} {ph} {pw} {dh} {dw} {b(biased)} {syn_tok(syn)}", "geom",
             "setw " + csv(rints(rng, Fi * C * KH * KW, -4, 4))]
    if rng.random() < 0.8:
        lines.append("setb " + csv(rints(rng, Fi, -9, 9)))
    B = rng.randint(1, 2)
    lines.append(f"fwd {B} " + csv(currents(rng, syn, B * C * H * W)))
    # pairwise distinct pixels: any permutation inside unfold / any wrong window offset shows
    base = rng.randint(1, 50)
    lines.append(f"unfold {B} " + csv([base + i for i in range(B * C * H * W)]))
    lines.append(f"like {B} " + csv([base + i for i in range(B * C * H * W)]))
    if full:
        lines.append("setw " + csv(rints(rng, Fi * C * KH * KW, -4, 4)))
        B2 = rng.randint(1, 3)
        lines.append(f"fwd {B2} " + csv(currents(rng, syn, B2 * C * H * W)))
        lines.append(f"likeinput {B} " + csv([LCM * v for v in rints(rng, B * N * L, -3, 3)]))
        R = rng.choice([0, Fi])
        lines.append(f"recv {B} {R} " + csv(rints(rng, B * N * L * max(R, 1), -5, 5)) + " " + csv(rints(rng, B * Fi * L, -5, 5)))
    return lines


def all_geoms(maxhw, maxk, maxs, maxd, maxp, per_axis):
    """non-empty geometries; per_axis=False: stride/dilation/padding equal on both axes"""
    out = []
    rs, rd, rp = range(1, maxs + 1), range(1, maxd + 1), range(0, maxp + 1)
    for H, W, KH, KW in itertools.product(range(1, maxhw + 1), range(1, maxhw + 1), range(1, maxk + 1), range(1, maxk + 1)):
        if per_axis:
            it = itertools.product(rs, rs, rp, rp, rd, rd)
        else:
            it = ((s, s, p, p, d, d) for s, p, d in itertools.product(rs, rp, rd))
        for sh, sw, ph, pw, dh, dw in it:
            if outsize(H, ph, dh, KH, sh) >= 1 and outsize(W, pw, dw, KW, sw) >= 1:
                out.append((H, W, KH, KW, sh, sw, ph, pw, dh, dw))
    return out


def rand_geom(rng, maxhw=7, maxk=3, maxs=3, maxd=3, maxp=3):
    while True:
        g = (rng.randint(1, maxhw), rng.randint(1, maxhw), rng.randint(1, maxk), rng.randint(1, maxk),
             rng.randint(1, maxs), rng.randint(1, maxs), rng.randint(0, maxp), rng.randint(0, maxp),
             rng.randint(1, maxd), rng.randint(1, maxd))
        H, W, KH, KW, sh, sw, ph, pw, dh, dw = g
        if outsize(H, ph, dh, KH, sh) >= 1 and outsize(W, pw, dw, KW, sw) >= 1:
            return g


def boundary_cases(rng):
    cases = []
    # linear: single element in/out, single-element batches, multi-dimensional shapes on both sides
    for kind in ("dense", "direct", "lateral"):
        cases.append(linear_case(rng, kind, boundary=((1,), (1,), True)))
        cases.append(linear_case(rng, kind, boundary=((2, 1, 2), (1, 3), False)))
    cases.append(lateral_seq_case(rng, n_ops=6, shape=(1,)))       # n = 1: the only weight is a self-weight
    cases.append(lateral_seq_case(rng, n_ops=10, shape=(2, 2)))
    # conv: 1x1 kernel; kernel = whole image; padding beyond the kernel; stride that skips pixels;
    # dilation spanning exactly the padded image; floor (not ceil) in the output size; asymmetric everything
    for g in [(1, 1, 1, 1, 1, 1, 0, 0, 1, 1), (3, 4, 3, 4, 1, 1, 0, 0, 1, 1), (3, 3, 1, 1, 1, 1, 2, 2, 1, 1),
              (5, 5, 1, 1, 2, 2, 0, 0, 1, 1), (5, 5, 3, 3, 1, 1, 0, 0, 2, 2), (6, 6, 2, 2, 2, 2, 1, 1, 2, 2),
              (6, 4, 2, 3, 2, 1, 1, 0, 2, 1), (4, 6, 3, 2, 1, 2, 0, 2, 1, 2), (6, 6, 3, 3, 2, 2, 0, 0, 1, 1),
              (2, 2, 3, 3, 1, 1, 1, 1, 1, 1), (7, 5, 2, 2, 3, 2, 2, 1, 3, 2)]:
        cases.append(conv_case(rng, g))
    return cases


def corpus_cases():
    from pathlib import Path
    d = Path(__file__).resolve().parent.parent.parent / "corpus" / "C05"
    out = []
    if d.exists():
        for f in sorted(d.glob("*.ops")):
            out.append([l for l in f.read_text().splitlines() if l.strip() and not l.startswith("#")])
    return out


def key_of(case, d):
    kind = case[0].split()[1] if case and case[0].startswith("begin") else "?"
    op = case[d[0]].split()[0]
    if op == "params" and kind == "lateral":
        # does the observed state have a non-zero self-weight / self-delay?
        toks = dict(t.split("=", 1) for t in d[3].split() if "=" in t)
        for name in ("w", "d"):
            v = toks.get(name, "N")
            if v not in ("N", ""):
                vals = v.split(",")
                n = math.isqrt(len(vals))
                if n * n == len(vals) and any(vals[i * n + i] not in ("0", "-0") for i in range(n)):
                    return f"C05:{d[1]}:lateral-diag-nonzero:{'weight' if name == 'w' else 'delay'}"
        prev = case[d[0] - 1].split()[0] if d[0] > 0 else "?"
        return f"C05:{d[1]}:lateral:params-after-{prev}"
    if str(d[3]).startswith("err "):
        return f"C05:{d[1]}:{kind}:{op}:raises"
    return f"C05:{d[1]}:{kind}:{op}"


def nonfinite_probe():
    """informational: the mask is a multiplication, so non-finite assignments leave NaN on the diagonal"""
    try:
        c = LinearLateral(3, 1.0, synapse=DeltaCurrent.partialconstructor(1.0))
        c.weight = torch.full((3, 3), float("inf"))
        return {"assigned": "inf", "diagonal_after": vals_s(c.weight.diag())}
    except Exception as e:  # pragma: no cover
        return {"error": repr(e)}


def explore(ctx) -> Exploration:
    ex = Exploration()
    import transval
    transval.validate(ctx, SPEC["translate"], ex, per_fn=80)   # generated output-size expression vs the compiled source expression
    rng = ctx.rng
    thorough = ctx.tier == "thorough" or ctx.intensify
    cases = corpus_cases()
    ncorpus = len(cases)
    bnd = boundary_cases(rng)
    cases += bnd
    nlin = 120 if not thorough else 800
    lin = [linear_case(rng) for _ in range(nlin)]
    nlat = 120 if not thorough else 800
    lat = [lateral_seq_case(rng) for _ in range(nlat)]
    if not thorough:
        pool = all_geoms(6, 3, 2, 2, 2, per_axis=False)
        geoms = rng.sample(pool, 100) + [rand_geom(rng) for _ in range(50)]
        conv = [conv_case(rng, g, full=True) for g in geoms]
        ex.exhaustive = False
    else:
        pool = all_geoms(6, 3, 2, 2, 2, per_axis=False)
        geoms = pool + [rand_geom(rng) for _ in range(600)]
        conv = [conv_case(rng, g, full=(i % 4 == 0)) for i, g in enumerate(geoms)]
        ex.extra["conv_grid"] = f"exhaustive H,W<=6, k<=3, s,d<=2, p<=2 (same on both axes): {len(pool)} non-empty geometries + 600 random per-axis geometries (H,W<=7,k<=3,s,d,p<=3)"
    cases += lin + lat + conv
    for c in cases:
        kind = c[0].split()[1]
        ex.count("connection", kind)
        for l in c:
            t = l.split()
            ex.count("ops", f"{kind}:{t[0]}")
            if t[0] in ("fwd", "like", "unfold", "likeinput", "recv"):
                ex.count("batch", t[1])
        if kind == "conv":
            t = c[0].split()
            ex.count("conv_kernel", f"{t[6]}x{t[7]}")
            ex.count("conv_stride", f"{t[8]}x{t[9]}")
            ex.count("conv_padding", f"{t[10]}x{t[11]}")
            ex.count("conv_dilation", f"{t[12]}x{t[13]}")
            ex.count("bias", t[14])
        else:
            ex.count("bias", c[0].split()[4 if kind == "dense" else 3])
            ex.count("inshape_dims", str(len(shp(c[0].split()[2]))))
            if kind == "lateral":
                ex.count("lateral_delayed", c[0].split()[4])
        syn = [t for t in c[0].split() if t.startswith("syn=")]
        if syn:
            ex.count("synapse", syn[0][4:].split(":")[0])

    def nontrivial(case, real):
        # non-trivial: at least one forward / reshape / parameter read produced a tensor with a non-zero entry
        for l, r in zip(case, real):
            if l.split()[0] in ("fwd", "params", "like", "unfold", "likeinput", "recv") and any(ch in "123456789" for ch in r[0].split(":", 1)[-1]):
                return True
        return False

    seqcheck.run_cases(ctx, DRIVER, cases, Real, ex, key_of, "C05", nontrivial)
    ex.rule = ("cases = corpus + hand-enumerated boundary cases (1-element shapes, n=1 lateral, 1x1 kernel, kernel = image, padding "
               "beyond the kernel, strides that skip pixels, dilation spanning the padded image, asymmetric per-axis geometry) + seeded "
               "random dense/direct/lateral connections (multi-dimensional in/out shapes, bias on/off, batch 1..4 changing between "
               "calls, three real synapse kinds; ops: assign weight/bias, forward, like_synaptic/like_input round trip, receptive views) "
               "+ seeded random lateral histories (weight/delay/bias assignments incl. identity-heavy and constant matrices, updater "
               "applications with 0..3 positive and negative parts; weight/delay/bias read back after every op) + conv geometries "
               + ("(exhaustive grid, see conv_grid)" if thorough else "(100 sampled from the exhaustive grid H,W<=6,k<=3,s,d<=2,p<=2 + 50 random per-axis geometries)")
               + " each with output-size check, forward vs unfold-matmul model and vs direct cross-correlation and vs F.conv2d, unfold of "
               "pairwise distinct pixels, fold/unfold round trip with uncovered positions, like_input of arbitrary data, receptive views; "
               "a case is non-trivial when some compared tensor has a non-zero entry; distinct = distinct protocol text")
    ex.samples = [bnd[0], lat[0][:8], conv[0][:4]]
    ex.extra["streams"] = {"corpus": ncorpus, "boundary": len(bnd), "linear_random": len(lin),
                           "lateral_histories": len(lat), "conv_geometries": len(conv)}
    ex.extra["lateral_nonfinite_probe"] = nonfinite_probe()
    return ex


def replay(ctx, data) -> int:
    case = data.get("failing_input", {}).get("ops") or data.get("ops")
    if not case:
        print("replay file has no op sequence (proof/tie breakage without failing input):", data.get("broken"))
        return 1
    real = seqcheck.exec_real(Real, case)
    resp = ctx.run_driver(DRIVER, seqcheck.to_driver(DRIVER, case))
    for l, r, d in zip(case, real, resp):
        print(f"{l}\n    real: M {r[0]} || S {r[1]}\n    lean: {d}")
    d = seqcheck.compare_case(case, real, resp)
    print("DISAGREEMENT" if d else "agrees", d or "")
    return 1 if d else 0
