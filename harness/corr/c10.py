"""C10 — correspondence + search for the Updater algebra (Accumulator / Updater / Updatable and
the 15 bounding functions).

Real side: a real `Updatable` — either a `LinearDense((1,), (E,))` connection with bias and delay
(parameters weight / bias / delay, each of E elements) or a minimal `Updatable` subclass (w / b / d)
— driven through the public API.  Protocol lines are those of `lean/drivers/C10.lean`.

Numbers: mode Q = the driver computes in exact rationals, the real code in float64 on dyadic
values (`exact` cases are compared with `==`; `approx` cases — means over 3 parts, ranges that are
not powers of two, 200-update histories whose exact values outgrow 53 bits — with 1e-12 relative);
mode F = Lean `Float` with the same operation order, values cross as IEEE bit patterns, compared
with 1e-12 relative (power families).
"""
from __future__ import annotations

import re
import struct
from fractions import Fraction
from pathlib import Path

import torch
import torch.nn as nn

import inferno
import inferno.functional as F
from inferno.neural import DeltaCurrent, LinearDense
from inferno.neural.modeling import Updatable, Updater

from runner import Exploration, Finding

SPEC = {
    "prop": "C10",
    "lean_targets": ["InfernoVerif.Props.C10", "InfernoVerif.Props.C10GlueProg", "InfernoVerif.Props.C10Run", "InfernoVerif.Drv.Proto"],
    "translate": ["UpdaterProg"],
    "driver_targets": ["InfernoVerif.Model.Updater", "InfernoVerif.Drv.Proto"],
    "prop_files": ["InfernoVerif/Props/C10.lean", "InfernoVerif/Props/C10GlueProg.lean", "InfernoVerif/Props/C10Run.lean"],
    "lemma_files": ["InfernoVerif/Lemmas/Updater.lean"],
    "model_files": ["InfernoVerif/Model/Updater.lean"],
    "driver": "drivers/C10.lean",
    "assumptions": [
        "all modelled code is element-wise: the model is the scalar machine of one tensor position, the driver runs one copy per position (parts have the parameter's shape; broadcasting of differently shaped parts is not generated)",
        "half bounding functions are configured with a limit (and power / range) as their docstrings require; a `None` limit is generated only for the full functions, where the code branches on it",
        "parts are float64 tensors (nn.ParameterList wraps them in Parameters, so integer parts are rejected by torch itself)",
        "accumulator operations address declared parameters of a live updater; the parent module is alive (weak reference valid)",
        "power dependence with a non-integer exponent is undefined (NaN in float64) for a parameter beyond the limit; with a FULL bounding function the unused side's NaN * 0 then poisons the update while the pair of half functions stays finite - such float cases (real code == Float copy of the code-shaped model, both NaN) are counted in the evidence and not judged against the real-number specification",
        "theorems over the reals; float rounding is outside them: the real code is compared exactly on dyadic inputs that stay representable and to 1e-12 relative otherwise; the stay-in-range check on the real parameter allows 1e-12*max(1,|min|,|max|)",
    ],
}
DRIVER = "drivers/C10.lean"
ERRS = {"RuntimeError", "ValueError", "TypeError", "AttributeError", "IndexError", "KeyError"}
DENSE = ("weight", "bias", "delay")
MINI = ("w", "b", "d")
TOL = 1e-12


# ---------------------------------------------------------------------------------------------
# number codec

def f2hex(x: float) -> str:
    return struct.pack(">d", float(x)).hex()


def hex2f(s: str) -> float:
    return struct.unpack(">d", bytes.fromhex(s))[0]


def frac_s(q: Fraction) -> str:
    return str(q.numerator) if q.denominator == 1 else f"{q.numerator}/{q.denominator}"


def enc(mode: str, q) -> str:
    """protocol token of a generated value (a Fraction)"""
    return frac_s(Fraction(q)) if mode == "Q" else f2hex(float(Fraction(q)))


def dec(mode: str, tok: str) -> float:
    return float(Fraction(tok)) if mode == "Q" else hex2f(tok)


def render(mode: str, x: float) -> str:
    """token of a value produced by the real code"""
    if mode == "F":
        return f2hex(x)
    if x != x or x in (float("inf"), float("-inf")):
        return "nan" if x != x else ("inf" if x > 0 else "-inf")
    return frac_s(Fraction(x))


QNUM = re.compile(r"^-?\d+(/\d+)?$")
FNUM = re.compile(r"^[0-9a-f]{16}$")
SPLIT = re.compile(r"([ ,;=|:])")


def same_view(a: str, b: str, mode: str, exact: bool) -> bool:
    """token-wise comparison of two views; numeric tokens numerically (exactly or to TOL)"""
    if a == b:
        return True
    ta, tb = SPLIT.split(a), SPLIT.split(b)
    if len(ta) != len(tb):
        return False
    num = QNUM if mode == "Q" else FNUM
    for x, y in zip(ta, tb):
        if x == y:
            continue
        if not (num.match(x) and num.match(y)):
            return False
        if mode == "Q":
            if exact:
                if Fraction(x) != Fraction(y):
                    return False
                continue
            fx, fy = float(Fraction(x)), float(Fraction(y))
        else:
            fx, fy = hex2f(x), hex2f(y)
        if fx != fx and fy != fy:
            continue
        if fx == fy:
            continue
        if fx != fx or fy != fy or abs(fx) == float("inf") or abs(fy) == float("inf"):
            return False
        if abs(fx - fy) > TOL * max(1.0, abs(fx), abs(fy)):
            return False
    return True


# ---------------------------------------------------------------------------------------------
# real side

class Mini(inferno.Module, Updatable):
    """a minimal Updatable: parameters w / b / d exposed through properties that assign `.data`"""

    def __init__(self, **params):
        inferno.Module.__init__(self)
        Updatable.__init__(self)
        for k, v in params.items():
            self.register_parameter(k + "_", nn.Parameter(v, False))

    def defaultupdater(self, *includes, **kwargs):
        return Updater(self, *includes, **kwargs)


def _mini_prop(name):
    def get(self):
        return getattr(self, name + "_")

    def set_(self, value):
        getattr(self, name + "_").data = value

    return property(get, set_)


for _n in MINI:
    setattr(Mini, _n, _mini_prop(_n))


def red_fn(mode, tok):
    if tok == "N":
        return None
    if tok == "sum":
        return torch.sum
    if tok == "mean":
        return torch.mean
    if tok == "amax":
        return torch.amax
    if tok == "amin":
        return torch.amin
    if tok == "first":
        return lambda x, d: x.select(d, 0)
    if tok == "last":
        return lambda x, d: x.select(d, -1)
    if tok.startswith("ssum:"):
        c = dec(mode, tok.split(":", 1)[1])
        return lambda x, d, c=c: x.sum(d) * c
    raise AssertionError(tok)


UPPER = {"mult": F.bound_upper_multiplicative, "smult": F.bound_upper_scaled_multiplicative,
         "sharp": F.bound_upper_sharp, "power": F.bound_upper_power, "spower": F.bound_upper_scaled_power}
LOWER = {"mult": F.bound_lower_multiplicative, "smult": F.bound_lower_scaled_multiplicative,
         "sharp": F.bound_lower_sharp, "power": F.bound_lower_power, "spower": F.bound_lower_scaled_power}
FULL = {"mult": F.bound_multiplicative, "smult": F.bound_scaled_multiplicative, "sharp": F.bound_sharp,
        "power": F.bound_power, "spower": F.bound_scaled_power}


class Real:
    def __init__(self):
        self.mode, self.E, self.m, self.names = "Q", 1, None, ()
        self.prev = {}

    def exec(self, line):
        tok = line.split()
        try:
            return self._exec(tok)
        except Exception as e:  # the real code raised: map to the closed error enum
            name = type(e).__name__
            return "err " + (name if name in ERRS else "Other")

    # -- values
    def vec(self, tok, name=None):
        vals = [dec(self.mode, t) for t in tok.split(",")]
        assert len(vals) == self.E
        t = torch.tensor(vals, dtype=torch.float64)
        return t.reshape(self.shape(name)) if name else t

    def optvec(self, tok, name):
        return None if tok == "N" else self.vec(tok, name)

    def sc(self, tok):
        return None if tok == "N" else dec(self.mode, tok)

    def shape(self, name):
        return (self.E, 1) if name in ("weight", "delay") else (self.E,)

    def vals_s(self, t):
        return ",".join(render(self.mode, x) for x in t.detach().to(torch.float64).reshape(-1).tolist())

    def acc(self, p):
        a = getattr(self.m.updater, p)
        assert a is self.m.updater.updates_[p]
        return a

    def _module(self, decl):
        nvs = [d.split("=") for d in decl.split(";")]
        names = tuple(n for n, _ in nvs)
        self.names = names
        if all(n in DENSE for n in names):
            m = LinearDense((1,), (self.E,), 1.0, synapse=DeltaCurrent.partialconstructor(100.0),
                            bias="bias" in names, delay=(2.0 if "delay" in names else None))
            for n, vs in nvs:
                setattr(m, n, self.vec(vs, n))
        else:
            m = Mini(**{n: self.vec(vs, n) for n, vs in nvs})
        self.m = m
        self.prev = {}
        return "ok"

    def _snapshot(self):
        self.prev = {n: getattr(self.m, n).detach().clone().reshape(-1) for n in self.names}

    def _exec(self, tok):
        m, op = self.m, tok[0]
        if op == "begin":
            self.mode, self.E = tok[1], int(tok[2])
            return "ok"
        if op == "module":
            return self._module(tok[1])
        if op == "dump":
            return self._dump()
        if op == "new":
            ps = [] if tok[1] == "-" else tok[1].split(",")
            fn = red_fn(self.mode, tok[2])
            if fn is None:
                if isinstance(m, LinearDense) and tuple(ps) == tuple(n for n in DENSE if n in self.names):
                    m.updater = m.defaultupdater()
                else:
                    m.updater = Updater(m, *ps)
            else:
                m.updater = Updater(m, *ps, reduction=fn)
            return "ok"
        if op == "delupdater":
            del m.updater
            return "ok"
        if op == "param":
            setattr(m, tok[1], self.vec(tok[2], tok[1]))
            return "ok"
        if op == "setpos":
            self.acc(tok[1]).pos = self.optvec(tok[2], tok[1])
            return "ok"
        if op == "setneg":
            self.acc(tok[1]).neg = self.optvec(tok[2], tok[1])
            return "ok"
        if op == "setacc":
            assert tok[1] in m.updater.names
            if tok[2] == "one":
                setattr(m.updater, tok[1], self.optvec(tok[3], tok[1]))
            else:
                setattr(m.updater, tok[1], (self.optvec(tok[3], tok[1]), self.optvec(tok[4], tok[1])))
            return "ok"
        if op in ("getpos", "getneg"):
            v = self.acc(tok[1]).pos if op == "getpos" else self.acc(tok[1]).neg
            return "None" if v is None else "val " + self.vals_s(v)
        if op == "delpos":
            del self.acc(tok[1]).pos
            return "ok"
        if op == "delneg":
            del self.acc(tok[1]).neg
            return "ok"
        if op == "delacc":
            assert tok[1] in m.updater.names
            delattr(m.updater, tok[1])
            return "ok"
        if op == "accclear":
            self.acc(tok[1]).clear()
            return "ok"
        if op == "reduction":
            self.acc(tok[1]).reduction(red_fn(self.mode, tok[2]))
            return "ok"
        if op in ("upperbound", "lowerbound"):
            a = self.acc(tok[1])
            cfg = a.upperbound if op == "upperbound" else a.lowerbound
            table = UPPER if op == "upperbound" else LOWER
            k = tok[2]
            if k == "none":
                cfg(None)
            elif k in ("mult", "sharp"):
                cfg(table[k], self.sc(tok[3]))
            elif k == "smult":
                cfg(table[k], self.sc(tok[3]), range=self.sc(tok[4]))
            elif k == "power":
                cfg(table[k], self.sc(tok[3]), power=self.sc(tok[4]))
            elif k == "spower":
                cfg(table[k], self.sc(tok[3]), power=self.sc(tok[4]), range=self.sc(tok[5]))
            else:
                raise AssertionError(tok)
            return "ok"
        if op == "fullbound":
            a, k = self.acc(tok[1]), tok[2]
            if k == "none":
                a.fullbound(None)
            elif k in ("mult", "smult", "sharp"):
                a.fullbound(FULL[k], self.sc(tok[3]), self.sc(tok[4]))
            elif k in ("power", "spower"):
                a.fullbound(FULL[k], self.sc(tok[3]), self.sc(tok[4]),
                            upper_power=self.sc(tok[5]), lower_power=self.sc(tok[6]))
            else:
                raise AssertionError(tok)
            return "ok"
        if op == "accupdate":
            v = self.acc(tok[1]).update(getattr(m, tok[1]))
            return "None" if v is None else "val " + self.vals_s(v)
        if op == "update":
            self._snapshot()
            m.update(clear=tok[1] == "T")
            return "ok"
        if op == "updatesome":
            self._snapshot()
            ps = [] if tok[1] == "-" else tok[1].split(",")
            m.updatesome(*ps, clear=tok[2] == "T")
            return "ok"
        if op == "clear":
            m.clear()
            return "ok"
        if op == "checkrange":
            lo, hi = dec(self.mode, tok[2]), dec(self.mode, tok[3])   # already widened by the float allowance
            v = getattr(m, tok[1]).detach().reshape(-1)
            return "in" if bool(((v >= lo) & (v <= hi)).all()) else "out"
        if op == "checksharp":
            mx, mn = dec(self.mode, tok[2]), dec(self.mode, tok[3])
            cur, prev = getattr(m, tok[1]).detach().reshape(-1), self.prev[tok[1]]
            ok = (~(prev >= mx) | (cur <= prev)) & (~(prev <= mn) | (cur >= prev))
            return "in" if bool(ok.all()) else "out"
        raise AssertionError(tok)

    def _dump(self):
        m = self.m
        ps = ";".join(f"{n}={self.vals_s(getattr(m, n))}" for n in self.names)
        u = m.updater
        if u is None:
            return (ps + " | noupdater", ps + " | noupdater")
        mm, ss = [], []
        for n in u.names:
            a = u.updates_[n]
            cp = "F" if a._pos_cache.cache_info().currsize else "S"
            cn = "F" if a._neg_cache.cache_info().currsize else "S"
            mm.append(f"{n}:{len(a._pos)},{len(a._neg)},{cp},{cn}")
            ss.append(f"{n}:{len(a._pos)},{len(a._neg)}")
        return (ps + " | " + " ".join(mm), ps + " | " + " ".join(ss))


def exec_real(case):
    ex = Real()
    out = []
    for line in case:
        try:
            r = ex.exec(line)
        except Exception as e:  # an executor bug must not masquerade as a verdict
            r = f"harness-exception {type(e).__name__}: {e}"
        out.append((r, r) if isinstance(r, str) else r)
    return out


def split_resp(resp):
    if resp.startswith("M ") and " || S " in resp:
        a, b = resp[2:].split(" || S ", 1)
        return a.strip(), b.strip()
    return resp.strip(), resp.strip()


def case_mode(case):
    t = case[0].split()
    return t[1], ("exact" in t[3:])


NAN_TOKENS = ("7ff8000000000000", "fff8000000000000")
STATS = {"float_nan_cases": 0}


def compare_case(case, real, resp):
    """first disagreement (index, kind, expected(driver), observed(real)) or None; a disagreement
    with the specification stream takes precedence over one with the code-shaped model.

    Float mode only: a power with a non-integer exponent of a negative base (parameter beyond a
    limit) is NaN; with a *full* bounding function the unused side's NaN * 0 poisons the update,
    which the exact-arithmetic specification (absent side contributes nothing) does not show.  When
    the real code and the Float copy of the code-shaped model agree on such a NaN the case is outside
    the theorems' domain: it is counted and the rest of the case is not compared."""
    mode, exact = case_mode(case)
    first_model = None
    for i, ((rm, rs), line) in enumerate(zip(real, resp)):
        dm, ds = split_resp(line)
        if not same_view(rs, ds, mode, exact):
            if mode == "F" and any(t in rm for t in NAN_TOKENS) and same_view(rm, dm, mode, exact):
                STATS["float_nan_cases"] += 1
                break
            return (i, "spec", ds, rs)
        if first_model is None and not same_view(rm, dm, mode, exact):
            first_model = (i, "model", dm, rm)
    return first_model


def protocol_failure(d):
    return any(x.startswith("harness-exception") for x in (d[2], d[3])) or "bad-op" in d[2] \
        or "nonuniform" in d[2] or "unsupported" in d[2]


def run_batch(ctx, cases):
    reals = [exec_real(c) for c in cases]
    flat = [l for c in cases for l in c]
    resp = ctx.run_driver(DRIVER, flat) if flat else []
    out, pos = [], 0
    for c, r in zip(cases, reals):
        out.append((r, resp[pos:pos + len(c)]))
        pos += len(c)
    return out


def shrink_case(ctx, case, kind, max_calls=8, max_cands=16):
    """ddmin-style: remove chunks of non-header lines while a disagreement of the same kind remains;
    all candidates of one round are evaluated in a single driver process."""
    nh = sum(1 for l in case if l.startswith(("begin", "module")))
    cur, calls = list(case), 0
    chunk = max(1, (len(cur) - nh) // 2)
    while calls < max_calls and chunk >= 1:
        starts = list(range(nh, len(cur) - 1, chunk))
        cands = [cur[:s] + cur[s + chunk:] for s in starts if len(cur[:s] + cur[s + chunk:]) > nh][:max_cands]
        # keep the last line (the disagreeing op) when possible
        if not cands:
            break
        calls += 1
        found = None
        for cand, (real, resp) in zip(cands, run_batch(ctx, cands)):
            d = compare_case(cand, real, resp)
            if d is not None and d[1] == kind and not protocol_failure(d):
                found = cand[: d[0] + 1]
                break
        if found is not None:
            cur = found
            chunk = min(chunk, max(1, (len(cur) - nh) // 2))
        elif chunk == 1:
            break
        else:
            chunk //= 2
    return cur


def key_of(case, d):
    op = case[d[0]].split()[0]
    if op in ("dump", "checkrange", "checksharp") and d[0] > 0 and op == "dump":
        prev = case[d[0] - 1].split()
        op = prev[0]
    return f"C10:{d[1]}:{op}"


def run_cases(ctx, cases, ex: Exploration, nontrivial, max_findings=8, max_shrunk=3):
    bad = []
    for case, (real, resp) in zip(cases, run_batch(ctx, cases)):
        ex.evaluations += len(case)
        ex.traces_validated += 1
        if nontrivial(case, real):
            ex.nontriv(tuple(case))
        for r in real:
            if r[0].startswith("err "):
                ex.count("real_errors", r[0][4:])
        d = compare_case(case, real, resp)
        if d is None:
            continue
        if protocol_failure(d):
            raise RuntimeError(f"harness/driver protocol failure on {case[:d[0] + 1]}: {d}")
        bad.append((case[: d[0] + 1], d))
    ex.extra["disagreeing_cases"] = len(bad)
    # specification disagreements first, shortest first; only the first few are shrunk
    bad.sort(key=lambda cd: (cd[1][1] != "spec", len(cd[0])))
    for n, (case, d) in enumerate(bad[:max_findings]):
        small, d2 = case, d
        if n < max_shrunk and len(case) > 4:
            small = shrink_case(ctx, case, d[1])
            (real2, resp2), = run_batch(ctx, [small])
            d2 = compare_case(small, real2, resp2) or d
            if d2 is d:
                small = case
        ex.findings.append(Finding(
            kind=d2[1], key=key_of(small, d2),
            what=f"op `{small[d2[0]]}`: expected `{d2[2]}` observed `{d2[3]}`",
            case={"ops": small, "index": d2[0], "expected": d2[2], "observed": d2[3],
                  "disagreement": "code vs specification" if d2[1] == "spec" else "code vs code-shaped model"}))


# ---------------------------------------------------------------------------------------------
# generators

def b(x):
    return "T" if x else "F"


def dy(rng, lo, hi, den=8):
    """a dyadic rational in [lo, hi] with denominator `den`"""
    return Fraction(rng.randint(int(lo * den), int(hi * den)), den)


def vec_tok(mode, vals):
    return ",".join(enc(mode, v) for v in vals)


def rand_vec(rng, mode, E, lo, hi, den=8):
    return vec_tok(mode, [dy(rng, lo, hi, den) for _ in range(E)])


def opt_vec(rng, mode, E, lo, hi, pnone=0.15):
    return "N" if rng.random() < pnone else rand_vec(rng, mode, E, lo, hi)


LIMITS = [(Fraction(1), Fraction(0)), (Fraction(2), Fraction(0)), (Fraction(1), Fraction(-1)),
          (Fraction(3, 2), Fraction(-1, 2)), (Fraction(4), Fraction(0)), (Fraction(1, 2), Fraction(0))]
LIMITS_ANY = LIMITS + [(Fraction(3), Fraction(0)), (Fraction(2), Fraction(-1)), (Fraction(5, 2), Fraction(1))]
POWERS = [Fraction(1), Fraction(2), Fraction(3, 2), Fraction(1, 2), Fraction(3), Fraction(5, 4)]
RED_EXACT = ["N", "sum", "amax", "amin", "first", "last", "ssum:1/2"]
RED_ANY = RED_EXACT + ["mean", "mean", "ssum:1/3"]


def red_tok(rng, mode, exact):
    t = rng.choice(RED_EXACT if exact else RED_ANY)
    if t.startswith("ssum:"):
        return "ssum:" + enc(mode, Fraction(t.split(":")[1]))
    return t


def half_tok(rng, mode, exact, upper):
    fams = ["none", "mult", "smult", "sharp"] + (["power", "spower"] * 2 if mode == "F" else [])
    k = rng.choice(fams)
    mx, mn = rng.choice(LIMITS if exact else LIMITS_ANY)
    lim = mx if upper else mn
    rg = (mx - mn) if rng.random() < 0.7 else rng.choice([Fraction(1), Fraction(2), Fraction(1, 2)] + ([] if exact else [Fraction(3)]))
    e = lambda q: enc(mode, q)
    if k == "none":
        return "none", k
    if k in ("mult", "sharp"):
        return f"{k} {e(lim)}", k
    if k == "smult":
        return f"smult {e(lim)} {e(rg)}", k
    if k == "power":
        return f"power {e(lim)} {e(rng.choice(POWERS))}", k
    return f"spower {e(lim)} {e(rng.choice(POWERS))} {e(rg)}", k


def full_tok(rng, mode, exact, malformed):
    fams = ["none", "mult", "smult", "sharp"] + (["power", "spower"] * 2 if mode == "F" else [])
    k = rng.choice(fams)
    mx, mn = rng.choice(LIMITS if exact else LIMITS_ANY)
    e = lambda q: enc(mode, q)
    smx, smn = e(mx), e(mn)
    r = rng.random()
    if r < 0.08:
        smx = "N"
    elif r < 0.16:
        smn = "N"
    elif r < 0.20:
        smx = smn = "N"
    if k in ("smult", "spower") and (smx == "N") != (smn == "N") and not malformed:
        smx, smn = e(mx), e(mn)      # one missing limit makes the scaled functions raise: malformed stream only
    if k == "none":
        return "none", k
    if k in ("mult", "smult", "sharp"):
        return f"{k} {smx} {smn}", k
    return f"{k} {smx} {smn} {e(rng.choice(POWERS))} {e(rng.choice(POWERS))}", k


def header(mode, E, exact, names, rng, lo=-1, hi=3):
    decl = ";".join(f"{n}={rand_vec(rng, mode, E, lo, hi)}" for n in names)
    return [f"begin {mode} {E} {'exact' if exact else 'approx'}", f"module {decl}"]


def pick_names(rng):
    if rng.random() < 0.5:
        return rng.choice([("weight",), ("weight", "bias"), ("weight", "bias", "delay"), ("weight", "delay")])
    return rng.choice([("w",), ("w", "b"), ("w", "b", "d")])


def random_case(rng, mode=None, big=False):
    mode = mode or ("F" if rng.random() < 0.35 else "Q")
    exact = mode == "Q" and rng.random() < 0.75
    E = rng.choice([1, 2, 3, 4])
    names = pick_names(rng)
    malformed = rng.random() < 0.2
    lines = header(mode, E, exact, names, rng)
    declared = list(names) if rng.random() < 0.8 else list(names[: rng.randint(1, len(names))])
    lines.append(f"new {','.join(declared)} {red_tok(rng, mode, exact)}")
    lines.append("dump")
    ntrainers = rng.randint(1, 3)
    styles = [rng.choice(["pair", "one", "posneg"]) for _ in range(ntrainers)]
    nupd, maxupd = 0, (8 if exact else 12)
    length = rng.randint(6, 40 if not big else 90)
    have_updater = True
    for _ in range(length):
        p = rng.choice(declared)
        r = rng.random()
        if not have_updater and r < 0.5:
            lines.append(f"new {','.join(declared)} {red_tok(rng, mode, exact)}")
            have_updater = True
        elif not have_updater:
            lines.append(rng.choice(["update T", "clear", f"updatesome {p} T", "updatesome - T"]))
        elif r < 0.42:    # a trainer contributes
            st = styles[rng.randrange(ntrainers)]
            if st == "pair":
                lines.append(f"setacc {p} pair {opt_vec(rng, mode, E, 0, 2)} {opt_vec(rng, mode, E, 0, 2)}")
            elif st == "one":
                lines.append(f"setacc {p} one {opt_vec(rng, mode, E, 0, 2)}")
            else:
                lines.append(f"{rng.choice(['setpos', 'setneg'])} {p} {opt_vec(rng, mode, E, 0, 2, 0.1)}")
        elif r < 0.52:
            lines.append(f"{rng.choice(['getpos', 'getneg'])} {p}")
        elif r < 0.57:
            lines.append(f"accupdate {p}")
        elif r < 0.61:
            lines.append(f"{rng.choice(['delpos', 'delneg', 'delacc', 'accclear'])} {p}")
        elif r < 0.66:
            lines.append(f"reduction {p} {red_tok(rng, mode, exact)}")
        elif r < 0.73:
            lines.append(f"upperbound {p} {half_tok(rng, mode, exact, True)[0]}")
        elif r < 0.80:
            lines.append(f"lowerbound {p} {half_tok(rng, mode, exact, False)[0]}")
        elif r < 0.87:
            lines.append(f"fullbound {p} {full_tok(rng, mode, exact, malformed)[0]}")
        elif r < 0.93:
            if nupd < maxupd:
                nupd += 1
                lines.append(f"update {b(rng.random() < 0.75)}")
        elif r < 0.96:
            if nupd < maxupd:
                nupd += 1
                k = rng.randint(0, len(declared))
                ps = rng.sample(declared, k)
                if malformed and rng.random() < 0.3:
                    ps.append("zzz")
                lines.append(f"updatesome {','.join(ps) if ps else '-'} {b(rng.random() < 0.75)}")
        elif r < 0.975:
            lines.append("clear")
        elif r < 0.985:
            lines.append(f"param {p} {rand_vec(rng, mode, E, -1, 3)}")
        elif r < 0.993:
            ps = list(declared)
            if malformed and rng.random() < 0.4:
                ps.append("zzz")
            lines.append(f"new {','.join(ps)} {red_tok(rng, mode, exact)}")
        elif malformed:
            lines.append("delupdater")
            have_updater = False
        else:
            continue
        lines.append("dump")
    if have_updater:
        lines += ["update T", "dump", "update T", "dump"]
    return lines


POSITIONS = ["below", "atmin", "inside", "atmax", "above"]


def exhaustive_cases(rng):
    """every one of the 15 bounding functions (5 families x upper / lower / full) x parameter
    below / at min / inside / at max / above x (pos only, neg only, both, none): one update."""
    cases = []
    for fam in ("mult", "smult", "sharp", "power", "spower"):
        mode = "F" if fam in ("power", "spower") else "Q"
        e = lambda q: enc(mode, q)
        for (mx, mn) in ((Fraction(1), Fraction(0)), (Fraction(3, 2), Fraction(-1, 2))):
            for pw in ((Fraction(1), Fraction(1)), (Fraction(2), Fraction(3, 2)), (Fraction(1, 2), Fraction(3))) if mode == "F" else ((None, None),):
                vals = [mn - Fraction(1, 4), mn, (mx + mn) / 2 + Fraction(1, 8), mx, mx + Fraction(3, 8)]
                rg = mx - mn
                if fam in ("mult", "sharp"):
                    up, lo, fu = f"{fam} {e(mx)}", f"{fam} {e(mn)}", f"{fam} {e(mx)} {e(mn)}"
                elif fam == "smult":
                    up, lo, fu = f"smult {e(mx)} {e(rg)}", f"smult {e(mn)} {e(rg)}", f"smult {e(mx)} {e(mn)}"
                elif fam == "power":
                    up, lo = f"power {e(mx)} {e(pw[0])}", f"power {e(mn)} {e(pw[1])}"
                    fu = f"power {e(mx)} {e(mn)} {e(pw[0])} {e(pw[1])}"
                else:
                    up, lo = f"spower {e(mx)} {e(pw[0])} {e(rg)}", f"spower {e(mn)} {e(pw[1])} {e(rg)}"
                    fu = f"spower {e(mx)} {e(mn)} {e(pw[0])} {e(pw[1])}"
                for cfg in ([f"upperbound w {up}"], [f"lowerbound w {lo}"], [f"upperbound w {up}", f"lowerbound w {lo}"],
                            [f"lowerbound w {lo}", f"upperbound w {up}"], [f"fullbound w {fu}"],
                            [f"fullbound w {fu}", f"upperbound w {up}"]):
                    for parts in ("P", "N", "PN", "-"):
                        head = [f"begin {mode} 5 exact", "module w=" + vec_tok(mode, vals), "new w N"] + cfg
                        if "P" in parts:
                            head.append(f"setpos w {rand_vec(rng, mode, 5, 0, 2)}")
                            head.append(f"setacc w one {rand_vec(rng, mode, 5, 0, 1)}")
                        if "N" in parts:
                            head.append(f"setneg w {rand_vec(rng, mode, 5, 0, 2)}")
                        cases.append(head + ["accupdate w", "dump", "update T", "dump", "update T", "dump"])
    return cases


def directed_cases():
    """fixed regression cases (the defects repaired in /repo and the obvious mutants)"""
    q = lambda s: s
    h = lambda x: f2hex(x)
    return [
        # D10: a reduction passed at construction is installed and used
        ["begin Q 2 exact", "module w=0,1;b=1/2,1/2", "new w,b mean", "setacc w one 1,2", "setacc w one 3,6",
         "setacc b pair 1,1 1/2,1/4", "getpos w", "getpos b", "update T", "dump"],
        ["begin Q 2 exact", "module weight=0,1;bias=1/2,1/2", "new weight,bias first", "setacc weight one 1,2",
         "setacc weight one 3,6", "update T", "dump"],
        # D11: bound_power / bound_scaled_power through Accumulator.fullbound
        [f"begin F 2 approx", f"module w={h(0.25)},{h(0.75)}", "new w N",
         f"fullbound w power {h(1.0)} {h(0.0)} {h(2.0)} {h(1.5)}", f"setacc w pair {h(0.5)},{h(0.25)} {h(0.125)},{h(1.0)}",
         "accupdate w", "update T", "dump"],
        [f"begin F 2 approx", f"module w={h(0.25)},{h(0.75)}", "new w N",
         f"fullbound w spower {h(1.5)} {h(-0.5)} {h(1.0)} {h(2.0)}", f"setacc w pair {h(0.5)},{h(0.25)} {h(0.125)},{h(1.0)}",
         "accupdate w", "update T", "dump"],
        # D29: reconfiguring the reduction after a read
        ["begin Q 2 exact", "module weight=0,0", "new weight N", "setacc weight one 1,2", "setacc weight one 3,6",
         "getpos weight", "dump", "reduction weight mean", "dump", "getpos weight", "update T", "dump"],
        ["begin Q 1 exact", "module w=0", "new w amax", "setneg w 1", "setneg w 3", "getneg w", "reduction w N",
         "accupdate w", "update T", "dump"],
        # cache invalidated on append / delete
        ["begin Q 1 exact", "module w=0", "new w N", "setpos w 1", "getpos w", "dump", "setpos w 2", "dump", "getpos w",
         "delpos w", "dump", "getpos w", "dump", "setneg w 1/2", "getneg w", "setacc w pair 1 1", "getneg w", "update T", "dump"],
        # sign of the depressive part; upper vs lower bound function
        ["begin Q 1 exact", "module w=1/4", "new w N", "setacc w pair 1/2 1/8", "update T", "dump",
         "fullbound w mult 1 0", "setacc w pair 1/2 1/4", "accupdate w", "update T", "dump",
         "upperbound w sharp 1", "lowerbound w mult 0", "setacc w pair 1/2 1/4", "accupdate w", "update T", "dump"],
        # updatesome / update(clear=False) / second apply
        ["begin Q 1 exact", "module w=0;b=0", "new w,b N", "setacc w one 1", "setacc b one 2", "updatesome w T", "dump",
         "updatesome b F", "dump", "update T", "dump", "update T", "dump", "updatesome - T", "updatesome zzz T", "dump"],
        # a scaled full bound with one limit missing raises when applied; nothing accumulated: untouched
        ["begin Q 1 exact", "module w=1/2;b=0", "new w,b N", "fullbound b smult 1 N", "update T", "dump", "setacc w one 1",
         "setacc b one 1", "update T", "dump", "update T", "dump"],
    ]


def widened(mode, mn, mx):
    """[min, max] widened by the float allowance 1e-12 * max(1, |min|, |max|); both sides of the
    comparison (real float64 parameter, driver's Rat / Float parameter) are tested against it."""
    eps = Fraction(1, 10 ** 12) * max(1, abs(mn), abs(mx))
    return f"{enc(mode, mn - eps)} {enc(mode, mx + eps)}"


def range_history(rng, fam, halves, nupd=200):
    """200 updates with reduced magnitudes <= 1 (scaled: <= range); the parameter must stay in [min, max]"""
    mode = "F" if fam == "spower" else "Q"
    e = lambda q: enc(mode, q)
    E = 3
    mx, mn = rng.choice(LIMITS_ANY)
    rg = mx - mn
    cap = Fraction(1) if fam == "mult" else rg
    names = rng.choice([("weight",), ("w",), ("weight", "bias")])
    p = names[0]
    start = [mn, mx, dy(rng, mn, mx, 16)]
    rng.shuffle(start)
    lines = [f"begin {mode} {E} approx",
             "module " + ";".join(f"{n}={vec_tok(mode, start)}" for n in names)]
    red = rng.choice(["N", "sum", "mean", "amax", "first", "ssum:1/2"])
    lines.append(f"new {','.join(names)} {red if not red.startswith('ssum') else 'ssum:' + e(Fraction(1, 2))}")
    ups = (rng.choice([Fraction(1), Fraction(3, 2), Fraction(2), Fraction(3)]), rng.choice([Fraction(1), Fraction(2), Fraction(5, 4)]))
    if fam == "mult":
        cfg = [f"fullbound {p} mult {e(mx)} {e(mn)}"] if not halves else [f"upperbound {p} mult {e(mx)}", f"lowerbound {p} mult {e(mn)}"]
    elif fam == "smult":
        cfg = [f"fullbound {p} smult {e(mx)} {e(mn)}"] if not halves else [f"upperbound {p} smult {e(mx)} {e(rg)}", f"lowerbound {p} smult {e(mn)} {e(rg)}"]
    else:
        cfg = [f"fullbound {p} spower {e(mx)} {e(mn)} {e(ups[0])} {e(ups[1])}"] if not halves else \
              [f"upperbound {p} spower {e(mx)} {e(ups[0])} {e(rg)}", f"lowerbound {p} spower {e(mn)} {e(ups[1])} {e(rg)}"]
    lines += cfg + ["dump"]
    for it in range(nupd):
        k = rng.choice([0, 1, 1, 2, 3])          # trainers contributing this round
        if red in ("N", "sum"):
            each = cap / max(k, 1)
        elif red == "ssum:1/2":
            each = 2 * cap / max(k, 1)
        else:
            each = cap
        for _ in range(k):
            hi_ = each if rng.random() < 0.3 else each * rng.choice([Fraction(1), Fraction(1, 2), Fraction(1, 8)])
            vp = [hi_ if rng.random() < 0.3 else Fraction(rng.randint(0, 16), 16) * hi_ for _ in range(E)]
            vn = [hi_ if rng.random() < 0.3 else Fraction(rng.randint(0, 16), 16) * hi_ for _ in range(E)]
            form = rng.random()
            if form < 0.6:
                lines.append(f"setacc {p} pair {vec_tok(mode, vp)} {vec_tok(mode, vn)}")
            elif form < 0.8:
                lines.append(f"setpos {p} {vec_tok(mode, vp)}")
            else:
                lines.append(f"setneg {p} {vec_tok(mode, vn)}")
        if rng.random() < 0.1:
            lines.append(f"getpos {p}")
        if rng.random() < 0.85:
            lines.append("update T")
        else:
            lines += [f"updatesome {p} F", f"checkrange {p} {widened(mode, mn, mx)}", "clear"]
        lines.append(f"checkrange {p} {widened(mode, mn, mx)}")
        if it % 25 == 24:
            lines.append("dump")
    lines.append("dump")
    return lines


def sharp_history(rng, halves, nupd=200):
    """sharp dependence: a parameter at or beyond a limit never moves further beyond it"""
    mode, E = "Q", 4
    mx, mn = rng.choice(LIMITS)
    p = rng.choice(["weight", "w"])
    start = [mn - Fraction(3, 8), mn, mx, mx + Fraction(5, 8)]
    lines = [f"begin Q {E} exact", f"module {p}={vec_tok(mode, start)}", f"new {p} {rng.choice(['N', 'amax', 'sum'])}"]
    lines += [f"fullbound {p} sharp {frac_s(mx)} {frac_s(mn)}"] if not halves else \
             [f"upperbound {p} sharp {frac_s(mx)}", f"lowerbound {p} sharp {frac_s(mn)}"]
    for it in range(nupd):
        for _ in range(rng.choice([0, 1, 2, 3])):
            lines.append(f"setacc {p} pair {opt_vec(rng, mode, E, 0, 1, 0.2)} {opt_vec(rng, mode, E, 0, 1, 0.2)}")
        lines += ["update T", f"checksharp {p} {frac_s(mx)} {frac_s(mn)}"]
        if it % 25 == 24:
            lines.append("dump")
    lines.append("dump")
    return lines


def order_pairs(rng, n):
    """the same parts contributed in two different orders (sum / mean / amax): equal parameters"""
    pairs = []
    for _ in range(n):
        E = rng.choice([1, 2, 3])
        names = pick_names(rng)
        p = names[0]
        red = rng.choice(["N", "sum", "mean", "amax", "amin"])
        head = header("Q", E, False, names, rng) + [f"new {','.join(names)} {red}"]
        if rng.random() < 0.6:
            head.append(f"fullbound {p} {full_tok(rng, 'Q', True, False)[0]}")
        contrib = []
        for _ in range(rng.randint(2, 6)):
            form = rng.random()
            if form < 0.5:
                contrib.append(f"setacc {p} pair {rand_vec(rng, 'Q', E, 0, 2)} {rand_vec(rng, 'Q', E, 0, 2)}")
            elif form < 0.75:
                contrib.append(f"setpos {p} {rand_vec(rng, 'Q', E, 0, 2)}")
            else:
                contrib.append(f"setneg {p} {rand_vec(rng, 'Q', E, 0, 2)}")
        perm = list(contrib)
        rng.shuffle(perm)
        tail = ["update T", "dump"]
        pairs.append((head + contrib + tail, head + perm + tail))
    return pairs


def corpus_cases():
    d = Path(__file__).resolve().parent.parent.parent / "corpus" / "C10"
    out = []
    if d.exists():
        for f in sorted(d.glob("*.ops")):
            out.append([l for l in f.read_text().splitlines() if l.strip() and not l.startswith("#")])
    return out


# ---------------------------------------------------------------------------------------------

def explore(ctx) -> Exploration:
    ex = Exploration()
    rng = ctx.rng
    thorough = ctx.tier == "thorough" or ctx.intensify
    corpus = corpus_cases()
    directed = directed_cases()
    exh = exhaustive_cases(rng)
    nrand = 600 if not thorough else 8000
    rnd = [random_case(rng) for _ in range(nrand)] + [random_case(rng, big=True) for _ in range(nrand // 10)]
    nh = 2 if not thorough else 12
    hist = []
    for _ in range(nh):
        for fam in ("mult", "smult", "spower"):
            for halves in (False, True):
                hist.append(range_history(rng, fam, halves))
        hist.append(sharp_history(rng, False))
        hist.append(sharp_history(rng, True))
    cases = corpus + directed + exh + rnd + hist
    for c in cases:
        t0 = c[0].split()
        ex.count("mode", t0[1] + ":" + (t0[3] if len(t0) > 3 else ""))
        ex.count("elements", t0[2])
        ex.count("target", "LinearDense" if c[1].split()[1].split("=")[0] in DENSE else "MinimalUpdatable")
        for l in c:
            t = l.split()
            ex.count("ops", t[0])
            if t[0] in ("upperbound", "lowerbound", "fullbound"):
                ex.count("bounding", f"{t[0]}:{t[2]}")
                if t[0] == "fullbound" and "N" in t[3:5]:
                    ex.count("bounding", "fullbound:limit=None")
            if t[0] in ("new", "reduction"):
                ex.count("reduction", f"{t[0]}:{t[-1].split(':')[0]}")

    def nontrivial(case, real):
        # at least one update / updatesome changed a parameter of the real module
        last = None
        changed = False
        for l, r in zip(case, real):
            if l == "dump":
                ps = r[1].split(" | ")[0]
                if last is not None and ps != last and prevop.startswith(("update", "updatesome")):
                    changed = True
                last = ps
            else:
                prevop = l
        return changed

    run_cases(ctx, cases, ex, nontrivial)

    # order independence on the real code (relational): same parts, two orders
    pairs = order_pairs(rng, 40 if not thorough else 400)
    res = run_batch(ctx, [c for pr in pairs for c in pr])
    for i, (ca, cb) in enumerate(pairs):
        (ra, pa), (rb, pb) = res[2 * i], res[2 * i + 1]
        ex.evaluations += len(ca) + len(cb)
        for c, r, p_ in ((ca, ra, pa), (cb, rb, pb)):
            d = compare_case(c, r, p_)
            if d is not None and not protocol_failure(d):
                ex.findings.append(Finding(kind=d[1], key=key_of(c, d), what=f"op `{c[d[0]]}`: expected `{d[2]}` observed `{d[3]}`",
                                           case={"ops": c[: d[0] + 1], "index": d[0], "expected": d[2], "observed": d[3]}))
        if not same_view(ra[-1][1], rb[-1][1], "Q", False):
            ex.findings.append(Finding(kind="spec", key="C10:spec:order",
                                       what=f"same parts in two orders give `{ra[-1][1]}` and `{rb[-1][1]}`",
                                       case={"ops": ca, "ops_permuted": cb, "expected": ra[-1][1], "observed": rb[-1][1]}))
        ex.nontriv(("order", tuple(ca)))
    ex.count("streams", "order_pairs", len(pairs))

    ex.rule = ("cases = corpus + directed regression sequences + exhaustive single updates (each of the 15 bounding functions, as "
               "upper / lower / both orders / full / full-then-half, parameter below / at min / inside / at max / above, parts pos / neg / both / none) "
               "+ seeded random interleavings (1-3 trainers contributing pair / single / pos / neg parts to 1-3 parameters of a real "
               "LinearDense or minimal Updatable, reads, deletes, reduction and bound reconfiguration, update / updatesome / clear with "
               "clear on and off, new updater with a reduction, parameters inside and outside the limits, 20% malformed) "
               "+ 200-update histories per family (multiplicative, scaled multiplicative, scaled power; full and half) with the real "
               "parameter checked against [min, max] after every update, sharp histories with the never-further check "
               "+ pairs of permuted contribution orders; a case is non-trivial when an update changed a parameter of the real module; "
               "distinct = distinct protocol text")
    ex.samples = [directed[0], rnd[0], hist[0][:12]]
    ex.extra["streams"] = {"corpus": len(corpus), "directed": len(directed), "exhaustive_single_update": len(exh),
                           "random_sequences": len(rnd), "histories_200_updates": len(hist), "order_pairs": len(pairs)}
    ex.extra["float_nan_outside_domain_cases"] = STATS["float_nan_cases"]
    ex.extra["range_checks_on_real_parameter"] = sum(1 for c in hist for l in c if l.startswith(("checkrange", "checksharp")))
    return ex


def replay(ctx, data) -> int:
    fi = data.get("failing_input", {})
    case = fi.get("ops") or data.get("ops")
    if not case:
        print("replay file has no op sequence (proof/tie breakage without failing input):", data.get("broken"))
        return 1
    (real, resp), = run_batch(ctx, [case])
    for l, r, d in zip(case, real, resp):
        print(f"{l}\n    real: M {r[0]} || S {r[1]}\n    lean: {d}")
    d = compare_case(case, real, resp)
    print("DISAGREEMENT" if d else "agrees", d or "")
    return 1 if d else 0
