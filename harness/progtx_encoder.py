"""Statement-level translator, encoder pipelines (DESIGN §12.5, property C19): the WHOLE BODIES of the seven
functions of `inferno/neural/functional/encoding.py` — `homogeneous_poisson_exp_interval` / `_online`,
`poisson_interval` / `_online`, `homogenous_poisson_bernoulli_approx` / `_online`,
`inhomogeneous_poisson_bernoulli_approx` — → Lean `Except Err` programs over the tensor vocabulary of
`Gen/EncoderPrelude.lean`, regenerated on every run as `Gen/EncoderProg.lean` (core Lean only, executable).

What is kept from the source, statement by statement and in SOURCE ORDER: the refractory conversion
(`refrac = step_time if refrac is None else refrac`, the tuple assignment `steps, refrac = int(steps), refrac /
step_time`), the rate → scale conversion and the `if compensate:` rebinding, `nbins = int(steps // max(refrac, 1))`,
which tensor operation follows which (`* res + refrac`, `cumsum(dim=0)`, `clamp_max_(steps)`, `.long()`, the zero
tensor with its number of rows, `scatter_(0, idx, 1)`, the final slice `[:-1]` / `[1:-1]`), the masking of the
Poisson-interval encoders (`mask = inputs > 0`, `inputs[~mask] = 0`, `res[:, mask] += res[:, mask] == 0`), the
Bernoulli probability with its clamp and the `ein.repeat` along time, and the GENERATORS of the online encoders.

Sampling calls are PARAMETERS: `t.new_empty(n, *x.shape).exponential_(1.0, generator=generator)`,
`torch.empty_like(x).exponential_(1.0, generator=generator)`, `torch.poisson(rate, generator=generator)` and
`torch.bernoulli(p, generator=generator)` become `(← exponentialS_ sampleK n x.length)` … where `sampleK` is an extra
parameter of the generated definition (the tensor that call draws), in the order the source makes the calls; the
`generator` parameter itself is dropped.  The number, order and kind of the sampling calls of each function are
fixed in `METHODS` (a change is a `TranslateError`).

A Python generator `pre; for _ in range(n): body; yield v` (the `yield` must be the last statement of the loop
body, the loop the last statement of the function) becomes a state machine:
  `structure <f>_State` — the locals that are live across iterations (read in the loop body, bound before it);
  `<f>_init … : Except Err (<f>_State × Nat)` — `pre`, returning the state at the loop head and `n`;
  `<f>_step (st) (sampleK) : Except Err (<f>_State × slice)` — ONE execution of the loop body;
  `<f> … (sample0) (samplesK : List …) := do let r ← <f>_init …; iterate <f>_step r.2 r.1 samplesK`.

Tensor layouts (kinds `T:e` flattened, `S:e` columns, `R:e` rows; `e` ∈ rat ext nat int bool bit) are explained in
`Gen/EncoderPrelude.lean`.  Value semantics is kept sound by refusing what could alias: a tensor bound to a second
name, an in-place operation on a parameter, on a view (`expand`, slice) or on a tensor a view was taken of, and
an in-place method (`clamp_max_`) on a name unless the statement rebinds that name or returns.  Float literals
are read with their decimal meaning (`1000.0` ↦ `(1000 : Rat)`).

`Props/C19GlueProg.lean` proves the generated programs equal to the functions of `Model/Encoder.lean`.  Anything
outside this sub-language raises `TranslateError` naming the node.  Functions are located by name at module level.
"""
from __future__ import annotations

import ast
import hashlib
import json
from fractions import Fraction

from progtx import Tx
from translate import GEN, REPO, TranslateError, lname

SRC = "inferno/neural/functional/encoding.py"

ELEM_TY = {"rat": "Rat", "ext": "Ext", "nat": "Nat", "int": "Int", "bool": "Bool", "bit": "Bool"}
LEAN_TY = {"nat": "Nat", "int": "Int", "rat": "Rat", "optrat": "Option Rat", "bool": "Bool"}
for _e, _t in ELEM_TY.items():
    LEAN_TY["T:" + _e] = f"List {_t}"
    LEAN_TY["S:" + _e] = f"List (List {_t})"
    LEAN_TY["R:" + _e] = f"List (List {_t})"

EXP_PARAMS = {"inputs": "T:rat", "steps": "nat", "step_time": "rat", "refrac": "optrat", "compensate": "bool"}
RATE_PARAMS = {"inputs": "T:rat", "steps": "nat", "step_time": "rat"}
# functions, in emission order.  `samples` = the sampling calls before the loop / of a plain function, in source
# order, as (primitive, kind of the supplied tensor); `loop_samples` = those of the loop body of a generator;
# `ret` = kind returned; `yield` = kind of the yielded slice (a generator)
METHODS = {
    "homogeneous_poisson_exp_interval": {"params": EXP_PARAMS, "samples": [("exponentialS_", "S:rat")], "ret": "S:bool"},
    "homogeneous_poisson_exp_interval_online": {"params": EXP_PARAMS, "samples": [("exponential_", "T:rat")],
                                                "loop_samples": [("exponential_", "T:rat")], "yield": "T:bool"},
    "poisson_interval": {"params": RATE_PARAMS, "samples": [("poissonS_", "S:nat")], "ret": "S:bool"},
    "poisson_interval_online": {"params": RATE_PARAMS, "samples": [("poisson_", "T:nat")],
                                "loop_samples": [("poisson_", "T:nat")], "yield": "T:bool"},
    "homogenous_poisson_bernoulli_approx": {"params": RATE_PARAMS, "samples": [("bernoulli2_", "R:rat")], "ret": "R:bool"},
    "homogenous_poisson_bernoulli_approx_online": {"params": RATE_PARAMS, "samples": [],
                                                   "loop_samples": [("bernoulli_", "T:rat")], "yield": "T:bool"},
    "inhomogeneous_poisson_bernoulli_approx": {"params": {"inputs": "R:rat", "step_time": "rat"},
                                               "samples": [("bernoulli2_", "R:rat")], "ret": "R:bool"},
}
DROPPED_PARAMS = {"generator"}

HEADER = """import InfernoVerif.Gen.EncoderPrelude
/-! GENERATED by harness/progtx_encoder.py from inferno/neural/functional/encoding.py (the seven encoder
pipelines) — do not edit.
Whole function bodies as `Except Err` programs; sampling calls are parameters (`sampleK`), a generator is a state
machine (`_State`, `_init`, `_step`, run by `iterate`).  Vocabulary: Gen/EncoderPrelude.lean. -/
set_option linter.unusedVariables false
namespace InfernoVerif.Gen.EncoderProg
open InfernoVerif.Enc InfernoVerif.Gen.EncoderPrelude
"""


def rank(k: str) -> str | None:
    return k[0] if k[:2] in ("T:", "S:", "R:") else None


def elem(k: str) -> str:
    return k[2:]


def fmt_rat(q: Fraction) -> str:
    if q.denominator == 1:
        return f"({q.numerator} : Rat)" if q >= 0 else f"(-{-q.numerator} : Rat)"
    return f"(({q.numerator} : Rat) / {q.denominator})"


class EncTx(Tx):
    SRC = SRC
    CLS = None
    METHODS = METHODS
    LEAN_TY = LEAN_TY
    STATE_TY = ""
    DROPPED_PARAMS = DROPPED_PARAMS
    OUT = "EncoderProg.lean"
    NAMESPACE = "InfernoVerif.Gen.EncoderProg"
    HEADER = HEADER

    def __init__(self, name: str, fdef: ast.FunctionDef, sigs: dict):
        super().__init__(name, fdef, sigs)
        self.sites: list = []            # sampling calls still expected in the part being translated
        self.site_no = 0                 # index of the next `sampleK` parameter
        self.used: list = []             # (parameter name, kind) of the sampling calls met
        self.params: set = set()         # tensor parameters (in-place operations refused)
        self.noinplace: set = set()      # names bound to a view, or of which a view was taken
        self.inplace_ok: set | None = set()   # names an in-place METHOD may act on in this statement (None: any)
        self.tmp = 0

    def err(self, node, msg):
        raise TranslateError(f"{self.SRC}::{self.name}:{getattr(node, 'lineno', '?')}",
                             f"{msg}: {ast.unparse(node)[:140] if isinstance(node, ast.AST) else node}")

    # ------------------------------------------------------------------ literals and scalars
    def num(self, n) -> Fraction | None:
        """a numeric literal (with an optional sign) -> its value (floats: decimal meaning)"""
        if isinstance(n, ast.UnaryOp) and isinstance(n.op, ast.USub):
            v = self.num(n.operand)
            return None if v is None else -v
        if isinstance(n, ast.Constant) and type(n.value) in (int, float):
            return Fraction(repr(n.value)) if isinstance(n.value, float) else Fraction(n.value)
        return None

    def is_float_lit(self, n) -> bool:
        while isinstance(n, ast.UnaryOp):
            n = n.operand
        return isinstance(n, ast.Constant) and type(n.value) is float

    def scalar(self, n, env, want: str) -> str:
        """text of a Python scalar as a Lean `Rat` / `Nat` / `Int`"""
        q = self.num(n)
        if q is not None:
            if want == "rat":
                return fmt_rat(q)
            if self.is_float_lit(n) or q.denominator != 1:
                self.err(n, f"float literal where an {want} is expected")
            if want == "nat":
                if q < 0:
                    self.err(n, "negative literal where a natural number is expected")
                return f"({q.numerator} : Nat)"
            return f"({q.numerator} : Int)" if q >= 0 else f"(-{-q.numerator} : Int)"
        v, k = self.ex(n, env)
        if k == want:
            return v
        if (k, want) in (("nat", "rat"), ("int", "rat"), ("nat", "int")):
            return f"({v} : {LEAN_TY[want]})"
        self.err(n, f"scalar of kind {k}, expected {want}")

    def elem_lit(self, n, e: str) -> str:
        """a literal as an element of a tensor of element kind `e`"""
        q = self.num(n)
        if q is None:
            self.err(n, "literal expected")
        if e == "ext":
            return f"(Ext.fin {fmt_rat(q)})"
        if e == "rat":
            return fmt_rat(q)
        if q.denominator != 1:
            self.err(n, "non-integral literal for a count tensor")
        if e == "nat" and q >= 0:
            return f"({q.numerator} : Nat)"
        if e == "int":
            return f"({q.numerator} : Int)" if q >= 0 else f"(-{-q.numerator} : Int)"
        self.err(n, f"literal for a tensor of {e}")

    def numel(self, n, env) -> str:
        """`*x.shape` for a `T` tensor `x` -> its number of elements"""
        if isinstance(n, ast.Starred) and isinstance(n.value, ast.Attribute) and n.value.attr == "shape":
            v, k = self.ex(n.value.value, env)
            if rank(k) == "T" and "←" not in v:
                return f"{v}.length"
        self.err(n, "expected `*x.shape` of a tensor shaped like the inputs")

    def take_site(self, node, prim: str) -> str:
        if not self.sites:
            self.err(node, "sampling call not listed in METHODS (number / order of the sampling calls changed)")
        want, kind = self.sites.pop(0)
        if want != prim:
            self.err(node, f"sampling call {prim} where {want} is expected")
        nm = f"sample{self.site_no}"
        self.site_no += 1
        self.used.append((nm, kind))
        return nm

    def gen_kw(self, n: ast.Call, npos: int) -> None:
        """the call has `npos` positional arguments and exactly `generator=generator`"""
        if len(n.args) != npos or len(n.keywords) != 1 or n.keywords[0].arg != "generator" \
                or not (isinstance(n.keywords[0].value, ast.Name) and n.keywords[0].value.id == "generator") \
                or "generator" not in self.sigs[self.name]["order"]:
            self.err(n, "sampling call without `generator=generator`")

    def view_of(self, n) -> None:
        if isinstance(n, ast.Name):
            self.noinplace.add(n.id)

    # ------------------------------------------------------------------ expressions
    def ex(self, n, env):
        if self.num(n) is not None:
            self.err(n, "numeric literal in a position where its type is not determined")
        if isinstance(n, ast.Constant):
            if isinstance(n.value, bool):
                return ("true" if n.value else "false"), "bool"
            self.err(n, "unsupported constant")
        if isinstance(n, ast.Name):
            if n.id not in env:
                self.err(n, "unknown name")
            return env[n.id]
        if isinstance(n, ast.UnaryOp) and isinstance(n.op, ast.Invert):
            v, k = self.ex(n.operand, env)
            if k == "T:bool":
                return f"(notT {v})", k
            self.err(n, f"`~` on kind {k}")
        if isinstance(n, ast.BinOp):
            return self.binop(n, env)
        if isinstance(n, ast.Compare) and len(n.ops) == 1:
            return self.compare(n, env)
        if isinstance(n, ast.IfExp):
            return self.ifexp(n, env)
        if isinstance(n, ast.Subscript):
            return self.subscript(n, env)
        if isinstance(n, ast.Call):
            return self.call(n, env)
        self.err(n, "unsupported expression")

    def operand(self, n, env):
        """-> (text, kind) with kind `lit` for a numeric literal"""
        if self.num(n) is not None:
            return None, "lit"
        return self.ex(n, env)

    def binop(self, n: ast.BinOp, env):
        a, ka = self.operand(n.left, env)
        b, kb = self.operand(n.right, env)
        op = type(n.op)
        sc = lambda x: self.scalar(x, env, "rat")       # noqa: E731
        scalar_b = kb in ("lit", "rat", "nat", "int")
        if op is ast.Div:
            if ka == "lit" and self.num(n.left) == 1 and kb == "T:rat":
                return f"(recipT {b})", "T:ext"
            if ka in ("lit", "rat") and kb == "rat":
                return f"(← pyDiv {sc(n.left)} {b})", "rat"
            if ka in ("T:rat", "R:rat") and kb == "lit" and self.num(n.right) != 0:
                return f"({'divS1Q' if ka[0] == 'T' else 'divS2Q'} {a} {sc(n.right)})", ka
        if op is ast.Mult:
            if ka == "T:ext" and kb == "rat":
                return f"(mulS1 {a} {b})", "T:ext"
            if ka in ("T:rat", "R:rat") and kb == "rat":
                return f"({'mulS1Q' if ka[0] == 'T' else 'mulS2Q'} {a} {b})", ka
            if ka == "S:rat" and kb == "T:ext":
                return f"(← mulB {a} {b})", "S:ext"
            if ka == "T:rat" and kb == "T:ext":
                return f"(← mulT {a} {b})", "T:ext"
        if op is ast.Sub:
            if ka == "T:ext" and kb == "rat":
                return f"(subS1 {a} {b})", "T:ext"
        if op is ast.Add:
            if ka == "T:ext" and kb == "rat":
                return f"(addS1 {a} {b})", "T:ext"
            if ka == "S:ext" and kb == "rat":
                return f"(addS2 {a} {b})", "S:ext"
            if ka == "nat" and kb == "lit" and not self.is_float_lit(n.right):
                return f"({a} + {self.scalar(n.right, env, 'nat')})", "nat"
        if op is ast.FloorDiv:
            if ka in ("nat", "int", "rat") and kb == "rat":
                return f"(← pyFloorDiv {sc(n.left)} {b})", "rat"
        self.err(n, f"unsupported arithmetic on kinds {ka}, {kb}")

    def compare(self, n: ast.Compare, env):
        a, ka = self.operand(n.left, env)
        b, kb = self.operand(n.comparators[0], env)
        op = type(n.ops[0])
        if kb == "lit":
            rhs = n.comparators[0]
            if op is ast.Gt and ka == "T:rat":
                return f"(gtS1Q {a} {self.scalar(rhs, env, 'rat')})", "T:bool"
            if op is ast.Lt and ka == "T:ext":
                return f"(ltS1 {a} {self.scalar(rhs, env, 'rat')})", "T:bool"
            if op is ast.Lt and ka == "T:int":
                return f"(ltS1I {a} {self.scalar(rhs, env, 'int')})", "T:bool"
            if op is ast.Eq and ka == "S:nat":
                return f"(eqS2N {a} {self.scalar(rhs, env, 'nat')})", "S:bool"
        self.err(n, f"unsupported comparison on kinds {ka}, {kb}")

    def ifexp(self, n: ast.IfExp, env):
        """`a if x is None else b` for an optional float `x` (refined to a float in `b`)"""
        t = n.test
        if isinstance(t, ast.Compare) and len(t.ops) == 1 and isinstance(t.ops[0], (ast.Is, ast.IsNot)) \
                and isinstance(t.left, ast.Name) and isinstance(t.comparators[0], ast.Constant) \
                and t.comparators[0].value is None and env.get(t.left.id, ("", ""))[1] == "optrat":
            x, xv = t.left.id, env[t.left.id][0]
            none_b, some_b = (n.body, n.orelse) if isinstance(t.ops[0], ast.Is) else (n.orelse, n.body)
            env_s = dict(env)
            env_s[x] = (xv, "rat")
            a = self.scalar(none_b, env, "rat")
            b = self.scalar(some_b, env_s, "rat")
            if "←" in a or "←" in b:
                self.err(n, "raising operand of a conditional expression")
            return f"(ifNone {xv} {a} fun {xv} => {b})", "rat"
        self.err(n, "unsupported conditional expression")

    def lit_bound(self, b) -> str:
        if b is None:
            return "none"
        q = self.num(b)
        if q is None or q.denominator != 1 or self.is_float_lit(b):
            self.err(b, "slice bound is not an integer literal")
        return f"(some ({q.numerator} : Int))" if q >= 0 else f"(some (-{-q.numerator} : Int))"

    def subscript(self, n: ast.Subscript, env):
        v, k = self.ex(n.value, env)
        sl = n.slice
        if isinstance(sl, ast.Slice):
            if sl.step is not None or rank(k) != "S":
                self.err(n, f"unsupported slice of kind {k}")
            self.view_of(n.value)
            return f"(sliceRows {v} {self.lit_bound(sl.lower)} {self.lit_bound(sl.upper)})", "view:" + k
        m = self.mask_index(n, k, env)
        return f"(← maskSelect {v} {m})", k

    def mask_index(self, n: ast.Subscript, k: str, env) -> str:
        """`x[m]` (`T`) / `x[:, m]` (`S`: columns) with a boolean mask shaped like the inputs -> the mask"""
        sl = n.slice
        if rank(k) == "S":
            if not (isinstance(sl, ast.Tuple) and len(sl.elts) == 2 and isinstance(sl.elts[0], ast.Slice)
                    and sl.elts[0].lower is None and sl.elts[0].upper is None and sl.elts[0].step is None):
                self.err(n, "unsupported index of a time-stacked tensor")
            sl = sl.elts[1]
        elif rank(k) != "T":
            self.err(n, f"unsupported subscript on kind {k}")
        m, km = self.ex(sl, env)
        if km != "T:bool":
            self.err(n, f"index of kind {km}")
        return m

    def may_inplace(self, recv) -> None:
        """an in-place method returning its receiver, used inside an expression"""
        if isinstance(recv, ast.Name):
            if recv.id in self.params or recv.id in self.noinplace:
                self.err(recv, "in-place operation on a parameter / a view / a viewed tensor")
            if self.inplace_ok is not None and recv.id not in self.inplace_ok:
                self.err(recv, "in-place method on a name that stays bound to the old value")

    def call(self, n: ast.Call, env):
        f = n.func
        ftxt = ast.unparse(f)
        kw = {k.arg: k.value for k in n.keywords}
        if ftxt == "int" and len(n.args) == 1 and not kw:
            v, k = self.ex(n.args[0], env)
            if k == "nat":
                return v, "nat"
            if k == "rat":
                return f"(pyInt {v})", "int"
            self.err(n, f"int() of kind {k}")
        if ftxt == "max" and len(n.args) == 2 and not kw:
            return f"(pyMax {self.scalar(n.args[0], env, 'rat')} {self.scalar(n.args[1], env, 'rat')})", "rat"
        if ftxt == "torch.logical_and" and len(n.args) == 2 and not kw:
            a, ka = self.ex(n.args[0], env)
            b, kb = self.ex(n.args[1], env)
            if ka == kb == "T:bool":
                return f"(← andT {a} {b})", "T:bool"
        if ftxt == "torch.zeros_like" and len(n.args) == 1 and list(kw) == ["dtype"] and ast.unparse(kw["dtype"]) == "torch.bool":
            v, k = self.ex(n.args[0], env)
            if rank(k) == "S":
                return f"(zerosLikeBool {v})", "S:bool"
        if ftxt == "ein.repeat" and len(n.args) == 2 and list(kw) == ["t"] and isinstance(n.args[1], ast.Constant) \
                and n.args[1].value == "... -> t ...":
            v, k = self.ex(n.args[0], env)
            if rank(k) == "T":
                return f"(repeatR {v} {self.scalar(kw['t'], env, 'nat')})", "R:" + elem(k)
        if ftxt == "torch.poisson":
            self.gen_kw(n, 1)
            r, kr = self.ex(n.args[0], env)
            kr = kr.removeprefix("view:")
            if kr == "S:ext":
                return f"(← poissonS_ {self.take_site(n, 'poissonS_')} {r})", "S:nat"
            if kr == "T:ext":
                return f"(← poisson_ {self.take_site(n, 'poisson_')} {r})", "T:int"
        if ftxt == "torch.bernoulli":
            self.gen_kw(n, 1)
            p, kp = self.ex(n.args[0], env)
            if kp == "R:rat":
                return f"(← bernoulli2_ {self.take_site(n, 'bernoulli2_')} {p})", "R:bit"
            if kp == "T:rat":
                return f"(← bernoulli_ {self.take_site(n, 'bernoulli_')} {p})", "T:bit"
        if isinstance(f, ast.Attribute):
            return self.method(n, f, kw, env)
        self.err(n, "unsupported call")

    def method(self, n: ast.Call, f: ast.Attribute, kw: dict, env):
        m = f.attr
        # <float tensor>.new_empty(n, *x.shape).exponential_(1.0, generator=generator)
        # torch.empty_like(x).exponential_(1.0, generator=generator)
        if m == "exponential_":
            self.gen_kw(n, 1)
            if self.num(n.args[0]) != 1:
                self.err(n, "exponential_ with a rate other than 1.0")
            r = f.value
            if isinstance(r, ast.Call) and isinstance(r.func, ast.Attribute) and r.func.attr == "new_empty" \
                    and len(r.args) == 2 and not r.keywords:
                rv, rk = self.ex(r.func.value, env)
                if rk in ("T:ext", "T:rat"):
                    size = self.scalar(r.args[0], env, "int")
                    ne = self.numel(r.args[1], env)
                    return f"(← exponentialS_ {self.take_site(n, 'exponentialS_')} {size} {ne})", "S:rat"
            if isinstance(r, ast.Call) and ast.unparse(r.func) == "torch.empty_like" and len(r.args) == 1 and not r.keywords:
                xv, xk = self.ex(r.args[0], env)
                if xk in ("T:ext", "T:rat"):
                    return f"(← exponential_ {self.take_site(n, 'exponential_')} {xv}.length)", "T:rat"
            self.err(n, "unsupported receiver of exponential_")
        v, k = self.ex(f.value, env)
        k0 = k.removeprefix("view:")
        if m == "cumsum" and ((len(n.args) == 0 and list(kw) == ["dim"] and self.num(kw["dim"]) == 0)
                              or (len(n.args) == 1 and not kw and self.num(n.args[0]) == 0)):
            if k0 == "S:ext":
                return f"(cumsum0 {v})", k0
            if k0 == "S:nat":
                return f"(cumsum0N {v})", k0
        if m == "clamp_max_" and len(n.args) == 1 and not kw:
            self.may_inplace(f.value)
            if k == "S:ext":
                return f"(clampMax2 {v} {self.scalar(n.args[0], env, 'rat')})", k
            if k == "S:nat":
                return f"(clampMax2N {v} {self.scalar(n.args[0], env, 'nat')})", k
            if k == "T:rat":
                return f"(clampMax1Q {v} {self.scalar(n.args[0], env, 'rat')})", k
            if k == "R:rat":
                return f"(clampMax2Q {v} {self.scalar(n.args[0], env, 'rat')})", k
        if m == "long" and not n.args and not kw:
            if k0 == "S:ext":
                return f"(long2 {v})", "S:int"
            if k0 == "S:nat":
                return f"(long2N {v})", "S:int"
        if m == "bool" and not n.args and not kw:
            if k0 == "T:bit":
                return f"(boolOf1 {v})", "T:bool"
            if k0 in ("S:bit", "R:bit"):
                return f"(boolOf2 {v})", k0[:2] + "bool"
        if m == "expand" and len(n.args) == 2 and not kw and k == "T:ext" and isinstance(f.value, ast.Name):
            if not (isinstance(n.args[1], ast.Starred) and ast.unparse(n.args[1].value) == f"{f.value.id}.shape"):
                self.err(n, "expand to a shape other than (n, *<receiver>.shape)")
            self.view_of(f.value)
            return f"(expand0 {v} {self.scalar(n.args[0], env, 'nat')})", "view:S:ext"
        if m == "new_zeros" and len(n.args) == 2 and list(kw) == ["dtype"] and ast.unparse(kw["dtype"]) == "torch.bool" \
                and rank(k0) is not None:
            return f"(zerosBool {self.scalar(n.args[0], env, 'nat')} {self.numel(n.args[1], env)})", "S:bool"
        if m == "scatter_" and len(n.args) == 3 and not kw and self.num(n.args[0]) == 0 and self.num(n.args[2]) == 1 \
                and k == "S:bool":
            if isinstance(f.value, ast.Name):
                self.err(n, "scatter_ on a named tensor")
            i, ki = self.ex(n.args[1], env)
            if ki == "S:int":
                return f"(← scatter0 {v} {i})", "S:bool"
        self.err(n, f"unsupported method call on kind {k}")

    # ------------------------------------------------------------------ statements
    def bind(self, name: str, v: str, k: str, env, d) -> tuple[str, dict]:
        env = dict(env)
        if k.startswith("view:"):
            k = k[5:]
            self.noinplace.add(name)
        else:
            self.noinplace.discard(name)
        self.params.discard(name)
        env[name] = (lname(name), k)
        return f"{self.ind(d)}let {lname(name)} := {v}\n", env

    def block(self, stmts, env, alias, d, cont) -> str:
        if not stmts:
            return cont(env, alias, d)
        s, rest = stmts[0], stmts[1:]
        nxt = lambda e, a, dd: self.block(rest, e, a, dd, cont)   # noqa: E731
        if isinstance(s, ast.Expr) and isinstance(s.value, ast.Constant) and isinstance(s.value.value, str):
            return nxt(env, alias, d)
        if isinstance(s, ast.With):
            if not all(ast.unparse(i.context_expr) == "torch.no_grad()" and i.optional_vars is None for i in s.items):
                self.err(s, "unsupported context manager")
            return self.block(list(s.body) + rest, env, alias, d, cont)
        if isinstance(s, ast.Return):
            if "ret" not in self.spec or s.value is None:
                self.err(s, "unsupported return")
            self.inplace_ok = None
            v, k = self.ex(s.value, env)
            self.inplace_ok = set()
            if k != self.spec["ret"]:
                self.err(s, f"returns kind {k}, expected {self.spec['ret']}")
            return f"{self.ind(d)}pure {v}\n"
        if isinstance(s, ast.Assign) and len(s.targets) == 1:
            return self.assign(s, env, alias, d, nxt)
        if isinstance(s, ast.AugAssign):
            return self.augassign(s, env, alias, d, nxt)
        if isinstance(s, ast.If):
            return self.if_stmt(s, rest, env, alias, d, cont)
        self.err(s, "unsupported statement")

    def if_stmt(self, s: ast.If, rest, env, alias, d, cont) -> str:
        """only `if <bool>: x = e` (a conditional rebinding of a local to a value of the same kind)"""
        body = list(s.body)
        if not s.orelse and len(body) == 1 and isinstance(body[0], ast.Assign) and len(body[0].targets) == 1 \
                and isinstance(body[0].targets[0], ast.Name) and body[0].targets[0].id in env:
            nm = body[0].targets[0].id
            c, kc = self.ex(s.test, env)
            self.inplace_ok = {nm}
            v, k = self.ex(body[0].value, env)
            self.inplace_ok = set()
            if kc == "bool" and k == env[nm][1] and "←" not in c + v and nm not in self.params:
                return (f"{self.ind(d)}let {env[nm][0]} := if {c} then {v} else {env[nm][0]}\n"
                        + self.block(rest, env, alias, d, cont))
        self.err(s, "unsupported conditional statement")

    def tensor_owned(self, nm: str, node) -> None:
        if nm in self.params or nm in self.noinplace:
            self.err(node, "in-place operation on a parameter / a view / a viewed tensor")

    def assign(self, s: ast.Assign, env, alias, d, nxt) -> str:
        I = self.ind(d)
        t = s.targets[0]
        if isinstance(t, ast.Tuple) and isinstance(s.value, ast.Tuple) and len(t.elts) == len(s.value.elts) \
                and all(isinstance(a, ast.Name) for a in t.elts):
            # all right-hand sides first (in the old environment), then the bindings
            out, tmps = "", []
            for b in s.value.elts:
                v, k = self.ex(b, env)
                if rank(k.removeprefix("view:")) is not None:
                    self.err(s, "tensor in a tuple assignment")
                nm = f"t{self.tmp}_"
                self.tmp += 1
                out += f"{I}let {nm} := {v}\n"
                tmps.append((nm, k))
            for a, (nm, k) in zip(t.elts, tmps):
                line, env = self.bind(a.id, nm, k, env, d)
                out += line
            return out + nxt(env, alias, d)
        if isinstance(t, ast.Name):
            if isinstance(s.value, ast.Name) and rank(env.get(s.value.id, ("", ""))[1]) is not None:
                self.err(s, "a tensor bound to a second name (aliasing)")
            self.inplace_ok = {t.id}
            v, k = self.ex(s.value, env)
            self.inplace_ok = set()
            line, env = self.bind(t.id, v, k, env, d)
            return line + nxt(env, alias, d)
        if isinstance(t, ast.Subscript) and isinstance(t.value, ast.Name) and t.value.id in env:
            nm = t.value.id
            xv, xk = env[nm]
            self.tensor_owned(nm, s)
            if rank(xk) != "T":
                self.err(s, f"masked assignment to kind {xk}")
            m = self.mask_index(t, xk, env)
            if self.num(s.value) is not None:
                return f"{I}let {xv} := (← maskFill {xv} {m} {self.elem_lit(s.value, elem(xk))})\n" + nxt(env, alias, d)
            v, k = self.ex(s.value, env)
            if k != xk:
                self.err(s, f"masked assignment of kind {k} to kind {xk}")
            # Python evaluates the right-hand side, then the target's index
            tmp = f"t{self.fresh_no()}_"
            return f"{I}let {tmp} := {v}\n{I}let {xv} := (← maskAssign {xv} {m} {tmp})\n" + nxt(env, alias, d)
        self.err(s, "unsupported assignment")

    def fresh_no(self) -> int:
        self.tmp += 1
        return self.tmp - 1

    def augassign(self, s: ast.AugAssign, env, alias, d, nxt) -> str:
        I = self.ind(d)
        t = s.target
        if isinstance(t, ast.Name) and t.id in env and isinstance(s.op, ast.Sub) and self.num(s.value) is not None:
            xv, xk = env[t.id]
            self.tensor_owned(t.id, s)
            if xk == "T:ext":
                return f"{I}let {xv} := (subS1 {xv} {self.scalar(s.value, env, 'rat')})\n" + nxt(env, alias, d)
            if xk == "T:int":
                return f"{I}let {xv} := (subS1I {xv} {self.scalar(s.value, env, 'int')})\n" + nxt(env, alias, d)
        if isinstance(t, ast.Subscript) and isinstance(t.value, ast.Name) and t.value.id in env and isinstance(s.op, ast.Add):
            nm = t.value.id
            xv, xk = env[nm]
            self.tensor_owned(nm, s)
            if xk == "S:nat":
                # x[:, m] += v  ==  tmp = x[:, m]; tmp += v; x[:, m] = tmp   (the selection is a copy)
                m = self.mask_index(t, xk, env)
                tmp = f"t{self.fresh_no()}_"
                v, k = self.ex(s.value, env)
                if k == "S:bool":
                    return (f"{I}let {tmp} := (← maskSelect {xv} {m})\n"
                            f"{I}let {tmp} := (← iaddB {tmp} {v})\n"
                            f"{I}let {xv} := (← maskAssign {xv} {m} {tmp})\n" + nxt(env, alias, d))
        self.err(s, "unsupported augmented assignment")

    # ------------------------------------------------------------------ whole function
    def signature(self) -> tuple[dict, str]:
        params = [p for p in self.sigs[self.name]["order"] if p not in self.DROPPED_PARAMS]
        if params != list(self.spec["params"]):
            raise TranslateError(f"{self.SRC}::{self.name}",
                                 f"signature changed: {params} (expected {list(self.spec['params'])})")
        env = {p: (lname(p), k) for p, k in self.spec["params"].items()}
        self.params = {p for p, k in self.spec["params"].items() if rank(k) is not None}
        ptxt = "".join(f" ({lname(p)} : {LEAN_TY[k]})" for p, k in self.spec["params"].items())
        return env, ptxt

    def sample_params(self, used) -> str:
        return "".join(f" ({nm} : {LEAN_TY[k]})" for nm, k in used)

    def defaults_note(self) -> str:
        d = self.sigs[self.name]["defaults"]
        return ", ".join(f"{p}={ast.unparse(v)}" for p, v in d.items() if p not in self.DROPPED_PARAMS)

    def emit(self) -> str:
        env, ptxt = self.signature()
        stmts = list(self.fdef.body)
        if "yield" in self.spec:
            return self.emit_generator(env, ptxt, stmts)
        if any(isinstance(x, (ast.Yield, ast.YieldFrom)) for x in ast.walk(self.fdef)):
            self.err(self.fdef, "yield in a function that is not a generator in METHODS")
        self.sites = list(self.spec["samples"])
        tail = lambda e, a, dd: self.err(self.fdef, "falls off the end without returning")   # noqa: E731
        body = self.block(stmts, env, {}, 1, tail)
        if self.sites:
            self.err(self.fdef, f"sampling calls not found: {self.sites}")
        return (f"def {self.name}{ptxt}{self.sample_params(self.used)} : Except Err ({LEAN_TY[self.spec['ret']]}) := do\n"
                + body)

    def split_loop(self, stmts):
        """`[doc, with no_grad: [pre…, for]]` -> (pre, for)"""
        flat = []

        def go(ss):
            for s in ss:
                if isinstance(s, ast.With) and all(ast.unparse(i.context_expr) == "torch.no_grad()" and i.optional_vars is None
                                                   for i in s.items):
                    go(s.body)
                else:
                    flat.append(s)
        go(stmts)
        if not flat or not isinstance(flat[-1], ast.For):
            self.err(self.fdef, "a generator must end with its `for` loop")
        loop = flat[-1]
        if loop.orelse or not isinstance(loop.target, ast.Name) or not loop.body:
            self.err(loop, "unsupported loop")
        last = loop.body[-1]
        if not (isinstance(last, ast.Expr) and isinstance(last.value, ast.Yield) and last.value.value is not None):
            self.err(loop, "the loop body must end with its `yield`")
        for part in flat[:-1] + loop.body[:-1] + [last.value.value]:
            for x in ast.walk(part):
                if isinstance(x, (ast.Yield, ast.YieldFrom, ast.Return, ast.Break, ast.Continue, ast.For, ast.While)):
                    self.err(x, "yield / return / break / continue / loop outside the supported generator shape")
        for x in ast.walk(loop):
            if isinstance(x, ast.Name) and x.id == loop.target.id and x is not loop.target:
                self.err(x, "the loop variable is used")
        return flat[:-1], loop

    def emit_generator(self, env, ptxt, stmts) -> str:
        pre, loop = self.split_loop(stmts)
        it = loop.iter
        if not (isinstance(it, ast.Call) and ast.unparse(it.func) == "range" and len(it.args) == 1 and not it.keywords):
            self.err(it, "loop over something else than range(n)")
        body, yielded = list(loop.body[:-1]), loop.body[-1].value.value
        st_ty = f"{self.name}_State"
        live: list = []            # filled by the continuation of `pre`: the state fields, in binding order
        state: dict = {}

        def at_loop_head(e, a, dd):
            read = {x.id for part in body + [yielded] for x in ast.walk(part) if isinstance(x, ast.Name)}
            for nm in e:
                if nm in read and nm not in self.DROPPED_PARAMS:
                    live.append(nm)
                    state[nm] = e[nm]
            count = self.scalar(it.args[0], e, "nat")
            flds = ", ".join(f"{lname(nm)} := {e[nm][0]}" for nm in live)
            return f"{self.ind(dd)}pure ({{ {flds} }}, {count})\n"

        self.sites = list(self.spec["samples"])
        init_body = self.block(pre, env, {}, 1, at_loop_head)
        if self.sites:
            self.err(self.fdef, f"sampling calls not found before the loop: {self.sites}")
        init_used, self.used = self.used, []
        head_params, head_noinplace = set(self.params), set(self.noinplace)
        # the loop body, from the state
        self.sites = list(self.spec["loop_samples"])
        env_b = {nm: (lname(nm), state[nm][1]) for nm in live}
        opening = "".join(f"  let {lname(nm)} := st.{lname(nm)}\n" for nm in live)

        def at_yield(e, a, dd):
            for nm in live:
                if e[nm][1] != state[nm][1]:
                    self.err(loop, f"kind of {nm} changes across an iteration: {state[nm][1]} -> {e[nm][1]}")
            self.inplace_ok = set()
            v, k = self.ex(yielded, e)
            if k != self.spec["yield"]:
                self.err(yielded, f"yields kind {k}, expected {self.spec['yield']}")
            flds = ", ".join(f"{lname(nm)} := {e[nm][0]}" for nm in live)
            return f"{self.ind(dd)}pure ({{ {flds} }}, {v})\n"

        step_body = self.block(body, env_b, {}, 1, at_yield)
        if self.sites:
            self.err(loop, f"sampling calls not found in the loop body: {self.sites}")
        if (self.params, self.noinplace) != (head_params, head_noinplace):
            self.err(loop, "ownership of a tensor changes across an iteration")
        step_used, self.used = self.used, []
        if len(step_used) != 1:
            self.err(loop, "a loop body with other than one sampling call")
        fields = "".join(f"  {lname(nm)} : {LEAN_TY[state[nm][1]]}\n" for nm in live)
        yty = LEAN_TY[self.spec["yield"]]
        args = "".join(f" {lname(p)}" for p in self.spec["params"]) + "".join(f" {nm}" for nm, _ in init_used)
        (snm, sk), = step_used
        return (f"structure {st_ty} where\n{fields}\n"
                f"/-- the statements before the loop; returns the generator's state at the loop head and the number of "
                f"iterations `{ast.unparse(it)}` -/\n"
                f"def {self.name}_init{ptxt}{self.sample_params(init_used)} : Except Err ({st_ty} × Nat) := do\n{init_body}\n"
                f"/-- one execution of the loop body: the new state and the yielded slice -/\n"
                f"def {self.name}_step (st : {st_ty}){self.sample_params(step_used)} : Except Err ({st_ty} × {yty}) := do\n"
                f"{opening}{step_body}\n"
                f"/-- the generator run to exhaustion: the yielded slices, in order -/\n"
                f"def {self.name}{ptxt}{self.sample_params(init_used)} (samples{snm[6:]} : List ({LEAN_TY[sk]})) : "
                f"Except Err (List ({yty})) := do\n"
                f"  let r ← {self.name}_init{args}\n"
                f"  iterate {self.name}_step r.2 r.1 samples{snm[6:]}\n")


def signature(f: ast.FunctionDef) -> dict:
    a = f.args
    if a.vararg or a.kwarg or a.posonlyargs:
        raise TranslateError(f"{SRC}::{f.name}", "unsupported signature")
    pos = [x.arg for x in a.args]
    defaults = dict(zip(pos[len(pos) - len(a.defaults):], a.defaults))
    defaults.update({x.arg: dflt for x, dflt in zip(a.kwonlyargs, a.kw_defaults) if dflt is not None})
    return {"order": pos + [x.arg for x in a.kwonlyargs], "defaults": defaults}


def regenerate() -> dict:
    """regenerates Gen/EncoderProg.lean; same return shape as `progtx.regenerate_class`"""
    T = EncTx
    src = (REPO / T.SRC).read_text()
    tree = ast.parse(src)
    fdefs = {}
    for name in T.METHODS:
        found = [n for n in tree.body if isinstance(n, ast.FunctionDef) and n.name == name]
        if len(found) != 1 or found[0].decorator_list:
            raise TranslateError(f"{T.SRC}::{name}", f"{len(found)} undecorated module-level definitions")
        fdefs[name] = found[0]
    sigs = {k: signature(f) for k, f in fdefs.items()}
    text = T.HEADER
    info = {}
    for name in T.METHODS:
        seg = ast.get_source_segment(src, fdefs[name]) or ""
        sha = hashlib.sha256(seg.encode()).hexdigest()[:16]
        tx = T(name, fdefs[name], sigs)
        code = tx.emit()
        note = tx.defaults_note()
        doc = (f"/-- from `{T.SRC}` :: `{name}` (sha256 of source segment {sha})"
               + (f"; defaults in the source: {note}" if note else "") + " -/\n")
        if code.startswith("structure "):
            text += f"\n/-- local state of the generator `{name}` at the head of its loop -/\n"
            # the doc comment of the function goes on the last definition (the generator itself)
            head, _, last = code.rpartition("/-- the generator run to exhaustion")
            text += head + doc.replace(" -/\n", "") + "; the generator run to exhaustion" + last
        else:
            text += "\n" + doc + code
        info[name] = sha
    text += f"\nend {T.NAMESPACE}\n"
    p = GEN / T.OUT
    changed = not p.exists() or p.read_text() != text
    if changed:
        p.write_text(text)
    return {"functions": info, "rewritten": changed}


if __name__ == "__main__":
    print(json.dumps(regenerate(), indent=1))
