#!/bin/bash
# Run once after a fresh restore (offline): regenerate translated definitions from /repo and
# build every Lean module the claimed checks need (property modules + what their drivers import).
set -e
V="$(cd "$(dirname "$0")/.." && pwd)"
cd "$V"
export PYTHONDONTWRITEBYTECODE=1
/venv/bin/python harness/translate.py > /dev/null
TARGETS=$(/venv/bin/python harness/targets.py)
cd lean
mkdir -p "$V/.locks"
flock "$V/.locks/lake.lock" lake build $TARGETS
printf 'begin 2 none\npush f;s;8 F\nread 1\n' | lake env lean --run drivers/C01.lean > /dev/null
echo "setup ok"
