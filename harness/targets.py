"""Prints the lake targets needed by all claimed checks (MANIFEST.json): each SPEC's
lean_targets + driver_targets + the project modules imported by its driver file(s)."""
import importlib
import json
import re
import sys
from pathlib import Path

HERE = Path(__file__).resolve().parent
VERIF = HERE.parent
sys.path.insert(0, str(HERE))
sys.path.insert(0, "/repo")
out = []
man = json.loads((VERIF / "MANIFEST.json").read_text())
for c in man["checks"]:
    pid = c["property_id"]
    try:
        spec = importlib.import_module(f"corr.{pid.lower()}").SPEC
    except Exception as e:  # noqa
        print(f"cannot import corr.{pid.lower()}: {e}", file=sys.stderr)
        continue
    ts = list(spec.get("lean_targets", [])) + list(spec.get("driver_targets", []))
    drivers = [spec["driver"]] if spec.get("driver") else []
    drivers += spec.get("drivers", [])
    d = VERIF / "lean" / "drivers" / f"{pid}.lean"
    if d.exists():
        drivers.append(f"drivers/{pid}.lean")
    if spec.get("translate"):
        drivers.append("drivers/Gen.lean")
    for dr in set(drivers):
        p = VERIF / "lean" / dr
        if p.exists():
            ts += re.findall(r"^import (InfernoVerif\.\S+)", p.read_text(), re.M)
    for t in ts:
        if t not in out:
            out.append(t)
print(" ".join(out))
