"""Statement-level translator, persistence plumbing (DESIGN §12.5, property C12): whole bodies of

* `inferno/core/infrastructure.py` — class `Module`: `__getattr__`, `__setattr__`, `__delattr__`, `__init__`,
  `register_extra`, `get_extra`, `get_extra_state`, `set_extra_state`; class `ShapedTensor`: the `owner` / `name` /
  `attributes` getters and `__init__`; class `RecordTensor`: `__init__`, the private `__data` getter, the private
  `__pointer` getter and setter, the classmethod `create`;
* `inferno/learn/classifiers/simple.py` — class `MaxRateClassifier`: the `assignments` / `occurrences` /
  `proportions` / `rates` / `nclass` getters, the `rates` setter, the nested load post-hook `sdhook`, `__init__`;
* `inferno/neural/modeling.py` — class `Accumulator`: the nested load post-hook `sdhook` of `__init__`

→ Lean programs over the worlds `Mod` / `RObj` (`Gen/PersistPrelude.lean`) and `UpdProg.AccS`
(`Gen/UpdaterPrelude.lean`), regenerated on every run as `Gen/PersistProg.lean` (core Lean only).

What is kept from the source, statement by statement and in SOURCE ORDER: the `_extras` routing of `__getattr__` /
`__setattr__` / `__delattr__` (the descriptor test with its four disjuncts, `self.__dict__.get("_extras")`, the
`is not None and name in _extras` test, the fall-back to `super()`), the `elif` cascade of `register_extra` with the
exception class of every branch and Python's short-circuit `hasattr(self, name) and name not in self._extras`,
`get_extra` (`rpartition`, `get_submodule`, the three `AttributeError`s), `get_extra_state` / `set_extra_state`;
of the constructors: the argument validation, the record-size formula, the shifted constraints
(`{(d + 1 if d >= 0 else d): s …} | {0: size}`), the `_ignore` test with the Parameter / tensor split of the
`unsqueeze(0).repeat(…)`, the call `ShapedTensor.__init__(…)` with its keyword arguments, the f-string attribute
names, the `isinstance(owner, nn.Module) and not isinstance(value, nn.Parameter)` choice between
`register_buffer(…, persistent=persist_data)` and `setattr`, the `persist_constraints` / `persist_temporal` choices
between `register_extra` and `setattr`, the pointer registration; of the classifier: the registration of `rates_`
(parameter) and of the three `persistent=False` buffers, the hook body `module.rates = module.rates`, its
registration, the final `self.rates = self.rates`, and the setter's four assignments in order; of the accumulator's
hook: the two `cache_clear()`.

Typing rules / decisions instead of code (each documented in `Gen/PersistPrelude.lean`):
* a `setattr(o, n, v)` / `getattr` / `hasattr` / torch registration primitive receives the REGENERATED
  `Module.__getattr__` / `__setattr__` as an argument, so the call-backs are tied too;
* `self.<p> = v` where `<p>` is a property of the class whose setter is translated here is emitted as a direct call of
  that setter (`Props/C12GlueProg.lean :: gen_setattr_property` shows `Module.__setattr__` dispatches to the setter of
  a property); other attribute assignments on a `Module` go through the regenerated `Module___setattr__`;
* the `owner` parameter of the tensor-attribute constructors and `self.__owner()` / `<obj>.owner` denote THE owner
  module of the world `RObj`; `cls(...)` of the classmethod `create` is the class's own constructor;
* dropped statements (matched by their exact `ast.unparse` text, so that an edit is reported):
  `self.__finalizer = weakref.finalize(…)` (runs when the object is collected, not modelled);
* ONE compound statement is a prelude primitive, matched by its exact text: the `try: shape = (argtest.gt(…),)
  except TypeError: …` normalisation of `MaxRateClassifier.__init__` (`classifier_validate_shape`).

Every effectful sub-expression is hoisted into its own `let tN_ ← …` in Python's evaluation order (A-normal form);
conditionals that fall through are joined (`let (self, …) ← (do … : M _)`), except when a branch contains a
`return` (then the continuation is duplicated into the branches).  Anything outside this sub-language raises
`TranslateError` naming the node.  Methods are located by class / name / decorator, never by line number.
"""
from __future__ import annotations

import ast
import hashlib
import json

import progtx
from progtx import Tx
from translate import GEN, REPO, TranslateError

INFRA = "inferno/core/infrastructure.py"
SIMPLE = "inferno/learn/classifiers/simple.py"
MODELING = "inferno/neural/modeling.py"

LEAN_TY = {
    "str": "String", "pyval": "PyVal β τ", "xdict": "XDict β τ", "bool": "Bool", "int": "Int", "time": "τ",
    "optcons": "Option Cons", "cons": "Cons", "tval": "TVal β", "unit": "Unit", "mod": "Mod β τ",
    "stattrs": "STAttrs", "rtattrs": "RTAttrs", "shapearg": "ShapeArg", "ints": "List Int",
}
STATE_TY = {"mod": "Mod β τ", "robj": "RObj β τ", "acc": "InfernoVerif.Gen.UpdProg.AccS α"}
LEAN_RESERVED = {"module", "open", "end", "at", "from", "in", "fun", "then", "else", "if", "match", "with", "do",
                 "let", "have", "show", "by", "where", "instance", "class", "structure", "def", "theorem",
                 "variable", "universe", "namespace", "section", "max", "min"}

_RT_PARAMS = {"name": "str", "step_time": "time", "duration": "time", "value": "tval", "constraints": "optcons",
              "persist_data": "bool", "persist_constraints": "bool", "persist_temporal": "bool", "strict": "bool",
              "live": "bool", "inclusive": "bool"}

# functions, in emission order (callees first).  key = name of the generated definition.
METHODS = {
    "Module___getattr__": {"src": INFRA, "cls": "Module", "py": "__getattr__", "state": "mod",
                           "params": {"name": "str"}, "ret": "pyval"},
    "Module___setattr__": {"src": INFRA, "cls": "Module", "py": "__setattr__", "state": "mod",
                           "params": {"name": "str", "value": "pyval"}, "ret": "unit"},
    "Module___delattr__": {"src": INFRA, "cls": "Module", "py": "__delattr__", "state": "mod",
                           "params": {"name": "str"}, "ret": "unit"},
    "Module___init__": {"src": INFRA, "cls": "Module", "py": "__init__", "state": "mod", "params": {},
                        "passthrough": ("args", "kwargs"), "ret": "unit"},
    "Module_register_extra": {"src": INFRA, "cls": "Module", "py": "register_extra", "state": "mod",
                              "params": {"name": "str", "value": "pyval"}, "ret": "unit"},
    "Module_get_extra": {"src": INFRA, "cls": "Module", "py": "get_extra", "state": "mod",
                         "params": {"target": "str"}, "ret": "pyval"},
    "Module_get_extra_state": {"src": INFRA, "cls": "Module", "py": "get_extra_state", "state": "mod",
                               "params": {}, "ret": "xdict"},
    "Module_set_extra_state": {"src": INFRA, "cls": "Module", "py": "set_extra_state", "state": "mod",
                               "params": {"state": "xdict"}, "ret": "unit"},
    "ShapedTensor_owner": {"src": INFRA, "cls": "ShapedTensor", "py": "owner", "decorator": "property",
                           "state": "robj", "params": {}, "ret": "mod"},
    "ShapedTensor_name": {"src": INFRA, "cls": "ShapedTensor", "py": "name", "decorator": "property",
                          "state": "robj", "params": {}, "ret": "str"},
    "ShapedTensor_attributes": {"src": INFRA, "cls": "ShapedTensor", "py": "attributes", "decorator": "property",
                                "state": "robj", "params": {}, "ret": "stattrs"},
    "ShapedTensor___init__": {"src": INFRA, "cls": "ShapedTensor", "py": "__init__", "state": "robj",
                              "params": {"name": "str", "value": "tval", "constraints": "optcons",
                                         "persist_data": "bool", "persist_constraints": "bool", "strict": "bool",
                                         "live": "bool"},
                              "drop": ["owner"], "ret": "unit"},
    "RecordTensor___init__": {"src": INFRA, "cls": "RecordTensor", "py": "__init__", "state": "robj",
                              "params": dict(_RT_PARAMS), "drop": ["owner"], "ret": "unit"},
    "RecordTensor___data": {"src": INFRA, "cls": "RecordTensor", "py": "__data", "decorator": "property",
                            "state": "robj", "params": {}, "ret": "pyval"},
    "RecordTensor___pointer": {"src": INFRA, "cls": "RecordTensor", "py": "__pointer", "decorator": "property",
                               "state": "robj", "params": {}, "ret": "pyval"},
    "RecordTensor___pointer_setter": {"src": INFRA, "cls": "RecordTensor", "py": "__pointer",
                                      "decorator": "__pointer.setter", "state": "robj", "params": {"value": "int"},
                                      "ret": "unit"},
    "RecordTensor_create": {"src": INFRA, "cls": "RecordTensor", "py": "create", "decorator": "classmethod",
                            "state": "robj", "create": True, "params": {"owner": "mod", **_RT_PARAMS},
                            "drop": ["cls"], "ret": "unit"},
    "MaxRateClassifier_assignments": {"src": SIMPLE, "cls": "MaxRateClassifier", "py": "assignments",
                                      "decorator": "property", "state": "mod", "params": {}, "ret": "pyval"},
    "MaxRateClassifier_occurrences": {"src": SIMPLE, "cls": "MaxRateClassifier", "py": "occurrences",
                                      "decorator": "property", "state": "mod", "params": {}, "ret": "pyval"},
    "MaxRateClassifier_proportions": {"src": SIMPLE, "cls": "MaxRateClassifier", "py": "proportions",
                                      "decorator": "property", "state": "mod", "params": {}, "ret": "pyval"},
    "MaxRateClassifier_rates": {"src": SIMPLE, "cls": "MaxRateClassifier", "py": "rates", "decorator": "property",
                                "state": "mod", "params": {}, "ret": "tval"},
    "MaxRateClassifier_nclass": {"src": SIMPLE, "cls": "MaxRateClassifier", "py": "nclass", "decorator": "property",
                                 "state": "mod", "params": {}, "ret": "int"},
    "MaxRateClassifier_rates_setter": {"src": SIMPLE, "cls": "MaxRateClassifier", "py": "rates",
                                       "decorator": "rates.setter", "state": "mod", "params": {"value": "tval"},
                                       "ret": "unit"},
    "MaxRateClassifier_sdhook": {"src": SIMPLE, "cls": "MaxRateClassifier", "py": "__init__", "nested": "sdhook",
                                 "state": "mod", "selfname": "module", "params": {}, "drop": ["incompatible_keys"],
                                 "ret": "unit"},
    "MaxRateClassifier___init__": {"src": SIMPLE, "cls": "MaxRateClassifier", "py": "__init__", "state": "mod",
                                   "params": {"shape": "shapearg", "num_classes": "int", "decay": "time"},
                                   "ret": "unit"},
    "Accumulator_sdhook": {"src": MODELING, "cls": "Accumulator", "py": "__init__", "nested": "sdhook",
                           "state": "acc", "selfname": "module", "params": {}, "drop": ["incompatible_keys"],
                           "ret": "unit"},
}
# base classes among the translated ones (checked against the `class` statements of the sources)
BASES = {"Module": [], "ShapedTensor": [], "RecordTensor": ["ShapedTensor"], "MaxRateClassifier": ["Module"],
         "Accumulator": ["Module"]}
# private instance attributes of the tensor-attribute classes: (class, attribute) -> (field of `RObj`, kind)
PRIVATE = {
    ("ShapedTensor", "__name"): ("name", "str"), ("ShapedTensor", "__strict"): ("strict", "bool"),
    ("ShapedTensor", "__live"): ("live", "bool"), ("ShapedTensor", "__attributes"): ("stAttrs", "stattrs"),
    ("RecordTensor", "__attributes"): ("rtAttrs", "rtattrs"),
}
OWNER_FLAG = {"ShapedTensor": "stOwner", "RecordTensor": "rtOwner"}
ATTR_FIELDS = {"stattrs": ("data", "constraints"),
               "rtattrs": ("data", "constraints", "dt", "duration", "inclusive", "pointer")}
# statements that are not translated (exact `ast.unparse` text)
DROPPED_STMTS = {
    "ShapedTensor": ["self.__finalizer = weakref.finalize(self, _shapedtensor_finalization, self.__owner, self.__name)"],
    "RecordTensor": ["self.__finalizer = weakref.finalize(self, _recordtensor_finalization, self.__owner, self.name)"],
}
# the one compound statement that is a prelude primitive (exact `ast.unparse` text) -> (bound name, primitive, kind)
VALIDATE_SHAPE = (
    "try:\n    shape = (argtest.gt('shape', shape, 0, int),)\nexcept TypeError:\n    if isinstance(shape, Sequence):\n"
    "        shape = argtest.ofsequence('shape', shape, argtest.gt, 0, int)\n    else:\n"
    "        raise TypeError(f\"'shape' ({argtest._typename(type(shape))}) cannot be interpreted as an integer or a "
    "sequence thereof\")")
REPEAT_ARGS = "*chain((size,), repeat(1, times=value.ndim))"
SHIFTED = "{d + 1 if d >= 0 else d: s for d, s in (constraints if constraints else {}).items()} | {0: size}"
GA = "(Module___getattr__ P)"
SA = "(Module___setattr__ P)"

HEADER = """import InfernoVerif.Gen.PersistPrelude
/-! GENERATED by harness/progtx_persist.py from inferno/core/infrastructure.py (classes Module, ShapedTensor,
RecordTensor), inferno/learn/classifiers/simple.py (class MaxRateClassifier) and inferno/neural/modeling.py
(class Accumulator: the load post-hook) — do not edit.
Whole bodies as programs `Prog σ ρ = Except (Err × σ) (σ × ρ)` over the worlds `Mod` / `RObj`; an exception carries
the state at the raise.  Vocabulary: Gen/PersistPrelude.lean. -/
set_option linter.unusedVariables false
namespace InfernoVerif.Gen.PersistProg
open InfernoVerif.Ring InfernoVerif.Shaped InfernoVerif.Gen.PersistPrelude

variable {β τ α : Type}
"""


def lname(n: str) -> str:
    return n + "_" if n in LEAN_RESERVED else n


def mro(cls: str) -> list[str]:
    out = [cls]
    for b in BASES[cls]:
        for c in mro(b):
            if c not in out:
                out.append(c)
    return out


class PersistTx(Tx):
    SRC = INFRA
    CLS = "Module"
    METHODS = METHODS
    LEAN_TY = LEAN_TY
    STATE_TY = "Mod β τ"
    DROPPED_PARAMS: set = set()
    OUT = "PersistProg.lean"
    NAMESPACE = "InfernoVerif.Gen.PersistProg"
    HEADER = HEADER

    def __init__(self, name: str, fdef: ast.FunctionDef, sigs: dict):
        self.name, self.fdef, self.sigs = name, fdef, sigs
        self.spec = self.METHODS[name]
        self.SRC = self.spec["src"]
        self.CLS = self.spec["cls"]
        self.state = self.spec["state"]
        self.STATE_TY = STATE_TY[self.state]
        self.pyself = self.spec.get("selfname", "self")     # the Python name of the object the body runs on
        self.sv = "self"                                     # the Lean name of the threaded state
        self.fresh = 0
        self.pre: list[str] = []
        self.F = self.CLS == "MaxRateClassifier"

    # ------------------------------------------------------------------ infrastructure
    def err(self, node, msg):
        where = f"{self.SRC}::{self.CLS}.{self.spec['py']}" + (f".{self.spec['nested']}" if self.spec.get("nested") else "")
        raise TranslateError(f"{where}:{getattr(node, 'lineno', '?')}",
                             f"{msg}: {ast.unparse(node)[:160] if isinstance(node, ast.AST) else node}")

    @property
    def monad(self) -> str:
        return f"Except (Err × {self.STATE_TY})"

    @property
    def ctx(self) -> str:
        return "P F" if self.F else "P"

    def tmp(self, stem="t") -> str:
        self.fresh += 1
        return f"{stem}{self.fresh}_"

    def hoist(self, text: str) -> str:
        """bind a raising plain primitive (`Except Err _`) by its own `let`, in the current state"""
        t = self.tmp()
        self.pre.append(f"let {t} ← raising {self.sv} ({text})")
        return t

    def hoist_prog(self, text: str) -> str:
        """a translated method / `Prog` primitive run on the state: rebinds the state, returns the value text"""
        r = self.tmp("r")
        self.pre.append(f"let {r} ← {text}")
        self.pre.append(f"let {self.sv} := {r}.1")
        return f"{r}.2"

    def flush(self, d) -> str:
        I = self.ind(d)
        out = "".join(I + line + "\n" for line in self.pre)
        self.pre = []
        return out

    def is_sv(self, n) -> bool:
        return isinstance(n, ast.Name) and n.id == self.pyself

    def sv_attr(self, n) -> str | None:
        """`<state object>.<attr>` -> attr"""
        if isinstance(n, ast.Attribute) and self.is_sv(n.value):
            return n.attr
        return None

    def find(self, cls: str, py: str, decorator: str | None) -> str | None:
        """generated definition for `py` (with that decorator) defined by the first class of the MRO of `cls` that
        defines it among the translated ones"""
        for c in mro(cls):
            for key, spec in self.METHODS.items():
                if spec["cls"] == c and spec["py"] == py and spec.get("decorator") == decorator and not spec.get("nested"):
                    return key
        return None

    def call_generated(self, key: str, obj: str, args: list[str]) -> str:
        """text of the call of a generated definition on the object `obj`"""
        F = " F" if self.METHODS[key]["cls"] == "MaxRateClassifier" else ""
        return f"{key} P{F} {obj}" + "".join(" " + a for a in args)

    def topy(self, v: str, k: str, node=None) -> str:
        """a value of kind `k` as a `PyVal`"""
        if k == "pyval":
            return v
        conv = {"time": "PyVal.float", "bool": "PyVal.bool", "int": "PyVal.int", "cons": "PyVal.cdict"}
        if k in conv:
            return f"({conv[k]} {v})"
        if k == "tval":
            return f"(TVal.toPy {v})"
        if k == "none":
            return "PyVal.none"
        if k == "odict":
            return "PyVal.odict"
        if k.startswith("selfobj:"):
            return f"(PyVal.obj \"{k.split(':')[1]}\")"
        self.err(node if node is not None else v, f"a value of kind {k} used as a Python object")

    # ------------------------------------------------------------------ expressions
    def ex(self, n, env):
        """-> (PURE lean text, kind); effectful sub-terms are hoisted into `self.pre` in evaluation order"""
        if isinstance(n, ast.Constant):
            if isinstance(n.value, str):
                return json.dumps(n.value), "str"
            if isinstance(n.value, bool):
                return ("true" if n.value else "false"), "bool"
            if isinstance(n.value, int):
                return (f"({n.value} : Int)" if n.value >= 0 else f"(-{-n.value} : Int)"), "int"
            if n.value is None:
                return "none", "none"
            self.err(n, "unsupported constant")
        if isinstance(n, ast.Name):
            if n.id == self.pyself and self.state != "robj":
                return self.sv, "selfmod"
            if n.id == self.pyself:
                return self.sv, f"selfobj:{self.CLS}"
            if n.id not in env:
                self.err(n, "unknown name")
            return env[n.id]
        if isinstance(n, ast.JoinedStr):
            parts = []
            for p in n.values:
                if isinstance(p, ast.Constant) and isinstance(p.value, str):
                    parts.append(json.dumps(p.value))
                elif isinstance(p, ast.FormattedValue) and p.conversion == -1 and p.format_spec is None:
                    v, k = self.ex(p.value, env)
                    if k != "str":
                        self.err(p, f"formatted value of kind {k}")
                    parts.append(v)
                else:
                    self.err(p, "unsupported f-string part")
            return "(" + " ++ ".join(parts) + ")", "str"
        if isinstance(n, ast.Attribute):
            return self.attribute(n, env)
        if isinstance(n, ast.Subscript):
            return self.subscript(n, env)
        if isinstance(n, ast.BoolOp):
            return self.boolop(n, env)
        if isinstance(n, ast.UnaryOp) and isinstance(n.op, ast.Not):
            v, k = self.ex(n.operand, env)
            if k != "bool":
                self.err(n, f"`not` on kind {k}")
            return f"(!{v})", "bool"
        if isinstance(n, ast.Compare) and len(n.ops) == 1:
            return self.compare(n, env)
        if isinstance(n, ast.IfExp):
            if ast.unparse(n) == "dict(constraints) if constraints else {}":
                v, k = self.ex(n.body.args[0], env)
                if k == "optcons":
                    return f"(dict_or_empty {v})", "cons"
            self.err(n, "unsupported conditional expression")
        if isinstance(n, ast.BinOp):
            if ast.unparse(n) == SHIFTED:
                c, kc = self.ex(ast.Name("constraints"), env)
                s, ks = self.ex(ast.Name("size"), env)
                if kc == "optcons" and ks == "int":
                    shifted = (f"((dict_or_empty {c}).map (fun ds_ => ((if decide (ds_.1 ≥ (0 : Int)) then ds_.1 + (1 : Int) "
                               f"else ds_.1), ds_.2)))")
                    return f"(dupdate {shifted} [((0 : Int), Int.toNat {s})])", "cons"
            a, ka = self.ex(n.left, env)
            b, kb = self.ex(n.right, env)
            if isinstance(n.op, ast.Add) and ka == "int" and kb == "int":
                return f"({a} + {b})", "int"
            self.err(n, f"unsupported arithmetic on kinds {ka}, {kb}")
        if isinstance(n, ast.Call):
            return self.call(n, env)
        self.err(n, "unsupported expression")

    def boolop(self, n: ast.BoolOp, env):
        """`and` / `or` keep Python's short-circuit: operands after the first are evaluated only when needed"""
        sym = " && " if isinstance(n.op, ast.And) else " || "
        stop = "false" if isinstance(n.op, ast.And) else "true"
        acc, k = self.ex(n.values[0], env)
        if k != "bool":
            self.err(n.values[0], f"operand of kind {k}")
        for x in n.values[1:]:
            saved, self.pre = self.pre, []
            v, kv = self.ex(x, env)
            inner, self.pre = self.pre, saved
            if kv != "bool":
                self.err(x, f"operand of kind {kv}")
            if not inner:
                acc = f"({acc}{sym}{v})"
                continue
            if any(line.startswith(f"let {self.sv} :=") for line in inner):
                self.err(x, "operand after the first of and/or changes the state")
            t = self.tmp("c")
            body = "; ".join(inner + [f"pure {v}"])
            go, halt = (f"(do {body})", f"pure {stop}")
            if isinstance(n.op, ast.Or):
                self.pre.append(f"let {t} ← (if {acc} then {halt} else {go} : {self.monad} Bool)")
            else:
                self.pre.append(f"let {t} ← (if {acc} then {go} else {halt} : {self.monad} Bool)")
            acc = t
        return acc, "bool"

    def compare(self, n: ast.Compare, env):
        op, lhs, rhs = n.ops[0], n.left, n.comparators[0]
        if isinstance(op, (ast.In, ast.NotIn)):
            # "_extras" in self.__dict__
            if isinstance(lhs, ast.Constant) and lhs.value == "_extras" and self.sv_attr(rhs) == "__dict__" \
                    and self.state == "mod" and isinstance(op, ast.In):
                return f"(dict_contains_extras {self.sv})", "bool"
            if isinstance(lhs, ast.Constant) and lhs.value == "." and isinstance(op, ast.In):
                v, k = self.ex(rhs, env)
                if k == "str":
                    return f"(str_contains_dot {v})", "bool"
            a, ka = self.ex(lhs, env)
            b, kb = self.ex(rhs, env)
            kb = kb.split(":")[0] if kb.endswith(":alias") else kb
            if ka == "str" and kb == "xdict":
                t = f"(dhas {b} {a})"
                return (t if isinstance(op, ast.In) else f"(!{t})"), "bool"
            self.err(n, f"unsupported membership test on kinds {ka}, {kb}")
        a, ka = self.ex(lhs, env)
        b, kb = self.ex(rhs, env)
        if isinstance(op, (ast.Is, ast.IsNot)) and kb == "none":
            if ka == "optxdict":
                return (f"{a}.isNone" if isinstance(op, ast.Is) else f"{a}.isSome"), "bool"
            self.err(n, f"comparison with None on kind {ka}")
        if isinstance(op, (ast.Eq, ast.NotEq)) and ka == "str" and kb == "str":
            return f"(decide ({a} {'=' if isinstance(op, ast.Eq) else '≠'} {b}))", "bool"
        self.err(n, f"unsupported comparison on kinds {ka}, {kb}")

    def private(self, n) -> str | None:
        a = self.sv_attr(n)
        if a is not None and a.startswith("__") and not a.endswith("__"):
            return a
        return None

    def getter(self, n, cls: str, obj: str, attr: str):
        """a property of `cls` (or of a base) read on the object `obj`: call of its translated getter"""
        key = self.find(cls, attr, "property")
        if key is None:
            return None
        if obj != self.sv:
            self.err(n, "property read on an object that is not the state")
        return self.hoist_prog(self.call_generated(key, obj, [])), self.METHODS[key]["ret"]

    def attribute(self, n: ast.Attribute, env):
        a = self.sv_attr(n)
        if a is not None and self.state == "robj":
            p = self.private(n)
            if p is not None:
                if (self.CLS, p) in PRIVATE:
                    fld, kind = PRIVATE[(self.CLS, p)]
                    return self.hoist(f"attr_get {self.sv}.{fld}"), kind
                self.err(n, "unknown private attribute")
            cls = self.CLS
            r = self.getter(n, cls, self.sv, a)
            if r is not None:
                return r
            self.err(n, f"attribute {a} of the tensor-attribute object is not a translated property")
        if a is not None and self.state == "mod":
            if a == "_extras":
                return self.hoist(f"attr_extras {self.sv}"), "xdict:alias"
            if a.startswith("__"):
                self.err(n, "unsupported attribute")
            r = self.getter(n, self.CLS, self.sv, a)
            if r is not None:
                return r
            for c in mro(self.CLS):
                if any(s["cls"] == c and s["py"] == a for s in self.METHODS.values()):
                    self.err(n, f"{a} names a translated method, not a value")
            # a plain attribute read: Python's attribute lookup
            return self.hoist(f"py_getattr {GA} P {self.sv} {json.dumps(a)}"), "pyval"
        v, k = self.ex(n.value, env)
        if k in ATTR_FIELDS and n.attr in ATTR_FIELDS[k]:
            return f"{v}.{n.attr}", "str"
        if k == "mod" and n.attr == "_extras":
            return self.hoist(f"attr_extras {v}"), "xdict"
        if n.attr == "data" and k == "pyval":
            t = self.hoist(f"as_tensor_recv {v}")
            return f"(TVal.data {t})", "tval"
        if n.attr == "data" and k == "tval":
            return f"(TVal.data {v})", "tval"
        self.err(n, f"unsupported attribute on kind {k}")

    def subscript(self, n: ast.Subscript, env):
        # self.__dict__["_extras"]
        if self.sv_attr(n.value) == "__dict__" and isinstance(n.slice, ast.Constant) and n.slice.value == "_extras" \
                and self.state == "mod":
            return self.hoist(f"dict_getitem_extras {self.sv}"), "xdict:alias"
        # x.shape[0]
        if isinstance(n.value, ast.Attribute) and n.value.attr == "shape" and isinstance(n.slice, ast.Constant) \
                and n.slice.value == 0:
            v, k = self.ex(n.value.value, env)
            if k == "pyval":
                v, k = self.hoist(f"as_tensor_recv {v}"), "tval"
            if k == "tval":
                return self.hoist(f"tensor_shape0 {v}"), "int"
        v, k = self.ex(n.value, env)
        i, ki = self.ex(n.slice, env)
        if k.split(":")[0] == "xdict" and ki == "str":
            return self.hoist(f"dict_getitem {v} {i}"), "pyval"
        self.err(n, f"unsupported subscript on kinds {k}, {ki}")

    def owner_expr(self, n, env) -> str | None:
        """does the expression denote THE owner module of the world `RObj`?  Evaluates it (for its exceptions) and
        returns the text of the module value"""
        if self.state != "robj":
            return None
        if isinstance(n, ast.Name) and n.id == "owner" and env.get("owner", ("", ""))[1] == "owner":
            return f"{self.sv}.owner"
        if isinstance(n, ast.Call) and not n.args and not n.keywords and self.private(n.func) == "__owner":
            return self.hoist(f"weakref_call {self.sv}.{OWNER_FLAG[self.CLS]} {self.sv}")
        if isinstance(n, ast.Attribute) and self.is_sv(n.value) and n.attr == "owner":
            v, k = self.ex(n, env)
            if k == "mod":
                return v
        return None

    def tensor_arg(self, node, env, how: str) -> str:
        v, k = self.ex(node, env)
        if k == "pyval":
            return self.hoist(f"{how} {v}")
        if k == "tval":
            return v
        self.err(node, f"tensor argument of kind {k}")

    def call(self, n: ast.Call, env):
        f = n.func
        ftxt = ast.unparse(f)
        kws = {k.arg: k.value for k in n.keywords}
        if self.state == "robj" and not n.args and not kws and self.private(f) == "__owner":
            return self.owner_expr(n, env), "mod"
        # ---- attribute protocol
        if ftxt == "super().__getattr__" and self.CLS == "Module" and len(n.args) == 1 and not kws:
            a, ka = self.ex(n.args[0], env)
            if ka == "str":
                return self.hoist(f"nn_Module___getattr__ {self.sv} {a}"), "pyval"
        if ftxt == "getattr" and len(n.args) == 3 and not kws and ast.unparse(n.args[0]) == f"type({self.pyself})" \
                and isinstance(n.args[2], ast.Constant) and n.args[2].value is None and self.state == "mod":
            a, ka = self.ex(n.args[1], env)
            if ka == "str":
                return f"(type_getattr {self.sv} {a})", f"descr:{a}"
        if ftxt in ("getattr", "hasattr") and len(n.args) == 2 and not kws:
            own = self.owner_expr(n.args[0], env)
            if own is None:
                o, ko = self.ex(n.args[0], env)
                if ko.startswith("descr:") and ftxt == "hasattr" and isinstance(n.args[1], ast.Constant) \
                        and n.args[1].value in ("__get__", "__set__", "__delete__"):
                    return f"(hasattr_{n.args[1].value} {o})", "bool"
                if ko not in ("mod", "selfmod"):
                    self.err(n, f"{ftxt} on kind {ko}")
                own = o
            a, ka = self.ex(n.args[1], env)
            if ka != "str":
                self.err(n, f"attribute name of kind {ka}")
            if ftxt == "hasattr":
                return self.hoist(f"py_hasattr {GA} P {own} {a}"), "bool"
            return self.hoist(f"py_getattr {GA} P {own} {a}"), "pyval"
        if ftxt == "isinstance" and len(n.args) == 2 and not kws:
            ty = ast.unparse(n.args[1])
            own = None
            if isinstance(n.args[0], ast.Name) and n.args[0].id == "owner":
                own = self.owner_expr(n.args[0], env)
            if own is not None:
                if ty == "nn.Module":
                    return f"(isinstance_nn_Module {own})", "bool"
                if ty == "Module":
                    return f"(isinstance_Module {own})", "bool"
                self.err(n, "unsupported isinstance test on the owner")
            v, k = self.ex(n.args[0], env)
            if k == "str" and ty == "str":
                return f"(isinstance_str {v})", "bool"
            if k.startswith("descr:") and ty == "property":
                return f"(isinstance_property {v})", "bool"
            if k == "pyval" and ty == "torch.Tensor | nn.Module":
                return f"(isinstance_Tensor_or_Module {v})", "bool"
            if k == "mod" and ty == "Module":
                return f"(isinstance_Module {v})", "bool"
            if k == "tval" and ty == "nn.Parameter":
                return f"(isinstance_Parameter {v})", "bool"
            self.err(n, f"unsupported isinstance test on kind {k}")
        if ftxt == f"{self.pyself}.__dict__.get" and len(n.args) == 1 and not kws and self.state == "mod" \
                and isinstance(n.args[0], ast.Constant) and n.args[0].value == "_extras":
            return f"(dict_get_extras {self.sv})", "optxdict:alias"
        if isinstance(f, ast.Attribute) and f.attr == "rpartition" and len(n.args) == 1 and not kws \
                and isinstance(n.args[0], ast.Constant) and n.args[0].value == ".":
            v, k = self.ex(f.value, env)
            if k == "str":
                return f"(str_rpartition_dot {v})", "str3"
        if ftxt == f"{self.pyself}.get_submodule" and len(n.args) == 1 and not kws and self.state == "mod":
            a, ka = self.ex(n.args[0], env)
            if ka == "str":
                return self.hoist(f"P.get_submodule {self.sv} {a}"), "mod"
        if ftxt == "OrderedDict" and not n.args and not kws:
            return "PyVal.odict", "odict"
        # ---- argument validation, sizes
        if ftxt == "argtest.identifier" and len(n.args) == 2 and not kws and isinstance(n.args[0], ast.Constant):
            v, k = self.ex(n.args[1], env)
            if k == "str":
                return self.hoist(f"argtest_identifier P {v}"), "str"
        if ftxt in ("argtest.gt", "argtest.gte") and len(n.args) == 4 and not kws and isinstance(n.args[0], ast.Constant) \
                and isinstance(n.args[2], ast.Constant) and type(n.args[2].value) is int and n.args[2].value == 0 \
                and isinstance(n.args[3], ast.Name):
            v, k = self.ex(n.args[1], env)
            if k == "time" and n.args[3].id == "float":
                return self.hoist(f"{ftxt.replace('.', '_')} P {v}"), "time"
            if k == "int" and n.args[3].id == "int" and ftxt == "argtest.gt":
                return self.hoist(f"argtest_gt_int {v}"), "int"
        if ftxt == "max" and len(n.args) == 2 and not kws:
            a, ka = self.ex(n.args[0], env)
            b, kb = self.ex(n.args[1], env)
            if ka == "int" and kb == "int":
                return f"(max {a} {b})", "int"
        if ftxt == "math.ceil" and len(n.args) == 1 and not kws and isinstance(n.args[0], ast.BinOp) \
                and isinstance(n.args[0].op, ast.Div):
            a, ka = self.ex(n.args[0].left, env)
            b, kb = self.ex(n.args[0].right, env)
            if ka == "time" and kb == "time":
                return f"(P.T.ceilDiv {a} {b})", "int"
        if ftxt == "bool" and len(n.args) == 1 and not kws:
            v, k = self.ex(n.args[0], env)
            if k == "bool":
                return f"(boolInt {v})", "int"
        if ftxt == "int" and len(n.args) == 1 and not kws:
            v, k = self.ex(n.args[0], env)
            if k == "int":
                return v, "int"
        # ---- tensor-attribute objects
        if ftxt == f"{self.pyself}._ignore" and len(n.args) == 1 and not kws and self.state == "robj":
            v, k = self.ex(n.args[0], env)
            if k == "tval":
                return f"(ShapedTensor__ignore {v})", "bool"
        if ftxt == f"{self.pyself}._ignore_or_compatible" and len(n.args) == 3 and not kws and self.state == "robj":
            a = [self.ex(x, env) for x in n.args]
            if [k for _, k in a] == ["tval", "cons", "bool"]:
                return f"(ShapedTensor__ignore_or_compatible {a[0][0]} {a[1][0]} {a[2][0]})", "bool"
        if isinstance(f, ast.Attribute) and f.attr == "repeat" and not kws and len(n.args) == 1 \
                and ast.unparse(n.args[0]) == REPEAT_ARGS and isinstance(f.value, ast.Call) \
                and isinstance(f.value.func, ast.Attribute) and f.value.func.attr == "unsqueeze" \
                and [ast.unparse(x) for x in f.value.args] == ["0"] and not f.value.keywords:
            base = f.value.func.value
            root = base.value if isinstance(base, ast.Attribute) and base.attr == "data" else base
            if not (isinstance(root, ast.Name) and root.id == "value"):
                self.err(n, "repeat of something else than `value`")       # REPEAT_ARGS reads `value.ndim`
            v, k = self.ex(base, env)
            s, ks = self.ex(ast.Name("size"), env)
            if k == "tval" and ks == "int":
                return f"(unsqueeze0_repeat {v} {s})", "tval"
        if ftxt == "ShapedTensor.LinkedAttributes" and len(n.args) == 2 and not kws:
            a = [self.ex(x, env) for x in n.args]
            if all(k == "str" for _, k in a):
                return f"(STAttrs.mk {a[0][0]} {a[1][0]})", "stattrs"
        if ftxt == "RecordTensor.LinkedAttributes" and len(n.args) == 6 and not kws:
            a = [self.ex(x, env) for x in n.args]
            if all(k == "str" for _, k in a):
                return "(RTAttrs.mk " + " ".join(v for v, _ in a) + ")", "rtattrs"
        if ftxt == "ShapedTensor.attributes.fget" and len(n.args) == 1 and not kws and self.is_sv(n.args[0]) \
                and "ShapedTensor" in mro(self.CLS) and self.state == "robj":
            key = self.find("ShapedTensor", "attributes", "property")
            if key is None:
                self.err(n, "ShapedTensor.attributes is not translated")
            return self.hoist_prog(self.call_generated(key, self.sv, [])), self.METHODS[key]["ret"]
        # ---- classifier tensors
        if ftxt == "torch.zeros" and not kws and n.args:
            dims = []
            for x in n.args:
                if isinstance(x, ast.Starred):
                    v, k = self.ex(x.value, env)
                    if k != "ints":
                        self.err(x, f"starred argument of kind {k}")
                    dims.append(v)
                else:
                    v, k = self.ex(x, env)
                    if k != "int":
                        self.err(x, f"dimension of kind {k}")
                    dims.append(f"[{v}]")
            return f"(torch_zeros P ({' ++ '.join(dims)}))", "tval"
        if isinstance(f, ast.Attribute) and f.attr in ("float", "long") and not n.args and not kws:
            v, k = self.ex(f.value, env)
            if k == "tval":
                return f"(TVal.to P {v} {'false' if f.attr == 'float' else 'true'})", "tval"
        if ftxt == "nn.Parameter" and len(n.args) == 2 and not kws:
            v, k = self.ex(n.args[0], env)
            g, kg = self.ex(n.args[1], env)
            if k == "tval" and kg == "bool":
                return f"(nn_Parameter {v} {g})", "tval"
        if ftxt == "F.normalize" and self.F and len(n.args) == 1 and {k: ast.unparse(v) for k, v in kws.items()} == {"p": "1", "dim": "-1"}:
            return f"(F.normalize {self.tensor_arg(n.args[0], env, 'as_tensor_recv')})", "tval"
        if ftxt == "torch.argmax" and self.F and len(n.args) == 1 and {k: ast.unparse(v) for k, v in kws.items()} == {"dim": "-1"}:
            return f"(F.argmax {self.tensor_arg(n.args[0], env, 'as_tensor_arg')})", "tval"
        if isinstance(f, ast.Attribute) and f.attr == "view" and self.F and [ast.unparse(x) for x in n.args] == ["-1"] and not kws:
            return f"(F.view_flat {self.tensor_arg(f.value, env, 'as_tensor_recv')})", "tval"
        if ftxt == "torch.bincount" and self.F and len(n.args) == 3 and not kws and isinstance(n.args[1], ast.Constant) \
                and n.args[1].value is None:
            x = self.tensor_arg(n.args[0], env, "as_tensor_arg")
            m, km = self.ex(n.args[2], env)
            if km == "int":
                return f"(F.bincount {x} {m})", "tval"
        self.err(n, "unsupported call")

    # ------------------------------------------------------------------ statements
    def has_return(self, stmts) -> bool:
        return any(isinstance(x, ast.Return) for s in stmts for x in ast.walk(s))

    def throw(self, s: ast.Raise, d) -> str:
        exc = s.exc.func.id if isinstance(s.exc, ast.Call) and isinstance(s.exc.func, ast.Name) else None
        if exc not in progtx.ERRS:
            self.err(s, "unsupported exception")
        return f"{self.ind(d)}throw (Err.{exc}, {self.sv})\n"

    def block(self, stmts, env, alias, d, cont) -> str:
        if not stmts:
            return cont(env, alias, d)
        s, rest = stmts[0], stmts[1:]
        I = self.ind(d)
        nxt = lambda e, a, dd: self.block(rest, e, a, dd, cont)   # noqa: E731
        if isinstance(s, ast.Expr) and isinstance(s.value, ast.Constant) and isinstance(s.value.value, str):
            return nxt(env, alias, d)
        if isinstance(s, (ast.Assert, ast.Pass)):
            return nxt(env, alias, d)
        if ast.unparse(s) in DROPPED_STMTS.get(self.CLS, []):
            return f"{I}-- not translated: {ast.unparse(s)[:100]}\n" + nxt(env, alias, d)
        if isinstance(s, ast.FunctionDef):
            if any(m["cls"] == self.CLS and m["py"] == self.spec["py"] and m.get("nested") == s.name
                   for m in self.METHODS.values()) and not self.spec.get("nested"):
                env = dict(env)
                env[s.name] = (json.dumps(f"{self.CLS}.{self.spec['py']}.{s.name}"), "hookfn")
                return nxt(env, alias, d)
            self.err(s, "nested function that is not translated")
        if isinstance(s, ast.Try):
            if ast.unparse(s) == VALIDATE_SHAPE and env.get("shape", ("", ""))[1] == "shapearg":
                t = self.hoist(f"classifier_validate_shape {env['shape'][0]}")
                env = dict(env)
                env["shape"] = ("shape", "ints")
                return self.flush(d) + f"{I}let shape := {t}\n" + nxt(env, alias, d)
            self.err(s, "unsupported try statement")
        if isinstance(s, ast.Raise):
            return self.throw(s, d)
        if isinstance(s, ast.Return):
            if s.value is None:
                self.err(s, "bare return")
            v, k = self.ex(s.value, env)
            k = k.split(":")[0]
            if k != self.spec["ret"]:
                self.err(s, f"returns kind {k}, expected {self.spec['ret']}")
            return self.flush(d) + f"{I}pure ({self.sv}, {v})\n"
        if isinstance(s, ast.AnnAssign) and s.value is not None and s.simple == 0:
            s = ast.copy_location(ast.Assign(targets=[s.target], value=s.value), s)   # `self.x: T = v` is `self.x = v`
        if isinstance(s, ast.Delete) and len(s.targets) == 1:
            return self.delete(s, env, alias, d, nxt)
        if isinstance(s, ast.Expr) and isinstance(s.value, ast.Call):
            return self.call_stmt(s.value, env, alias, d, nxt)
        if isinstance(s, ast.Assign) and len(s.targets) == 1:
            return self.assign(s, env, alias, d, nxt)
        if isinstance(s, ast.If):
            return self.if_stmt(s, rest, env, alias, d, cont)
        self.err(s, "unsupported statement")

    def set_extras(self, new: str, d) -> str:
        return f"{self.ind(d)}let {self.sv} := {{ {self.sv} with extras := some {new} }}\n"

    def delete(self, s: ast.Delete, env, alias, d, nxt) -> str:
        t = s.targets[0]
        # del self._extras[name]
        if isinstance(t, ast.Subscript) and self.sv_attr(t.value) == "_extras" and self.state == "mod":
            e, _ = self.ex(t.value, env)
            k, kk = self.ex(t.slice, env)
            if kk == "str":
                return self.flush(d) + self.set_extras(f"(ddel {e} {k})", d) + nxt(env, alias, d)
        self.err(s, "unsupported del statement")

    def on_owner(self, prog: str, d) -> str:
        """a `Prog (Mod) _` on the owner module (`o_`), run from a method of the tensor-attribute object"""
        return f"{self.ind(d)}let {self.sv} := (← onOwner {self.sv} (fun o_ => {prog})).1\n"

    def method_args(self, c: ast.Call, key: str, args, env, skip_first: bool) -> list[str]:
        """arguments of a call of a generated definition, in the callee's parameter order (defaults from its source)"""
        sig, spec = self.sigs[key], self.METHODS[key]
        names = list(sig["order"])
        pos = list(args[1:] if skip_first else args)
        given = {}
        for i, x in enumerate(pos):
            if isinstance(x, ast.Starred) or i >= len(names):
                self.err(c, "unsupported positional arguments")
            given[names[i]] = x
        for kw in c.keywords:
            if kw.arg is None or kw.arg not in names or kw.arg in given:
                self.err(c, "unsupported keyword arguments")
            given[kw.arg] = kw.value
        out = []
        for p in names:
            node = given.get(p, sig["defaults"].get(p))
            if node is None:
                self.err(c, f"missing argument {p}")
            if p in spec.get("drop", []):
                if p == "owner" and self.owner_expr(node, env) is None:
                    self.err(node, "argument `owner` is not the owner of the world")
                continue
            want = spec["params"][p]
            v, k = self.ex(node, env)
            k = k.split(":")[0]
            if want == "optcons" and k == "cons":
                v, k = f"(some {v})", "optcons"
            if want == "optcons" and k == "none":
                v, k = "none", "optcons"
            if want == "pyval" and k != "pyval":
                v, k = self.topy(v, k, node), "pyval"
            if k != want:
                self.err(node, f"argument {p} of {key}: kind {k}, expected {want}")
            out.append(v)
        return out

    def call_stmt(self, c: ast.Call, env, alias, d, nxt) -> str:
        I = self.ind(d)
        f = c.func
        ftxt = ast.unparse(f)
        kws = {k.arg: k.value for k in c.keywords}
        sv = self.sv
        if self.state == "acc":
            # module._pos_cache.cache_clear()
            if isinstance(f, ast.Attribute) and f.attr == "cache_clear" and not c.args and not kws \
                    and self.sv_attr(f.value) in ("_pos_cache", "_neg_cache"):
                return (f"{I}let {sv} := {{ {sv} with {f.value.attr} := InfernoVerif.Gen.UpdProg.cacheClear }}\n"
                        + nxt(env, alias, d))
            self.err(c, "unsupported call statement")
        # ---- class Module
        if ftxt == "nn.Module.__init__" and self.CLS == "Module" and self.spec.get("passthrough") \
                and [ast.unparse(x) for x in c.args] == ["self", f"*{self.spec['passthrough'][0]}"] \
                and [(k.arg, ast.unparse(k.value)) for k in c.keywords] == [(None, self.spec["passthrough"][1])]:
            return f"{I}let {sv} := (nn_Module___init__ {sv})\n" + nxt(env, alias, d)
        if ftxt in ("super().__setattr__", "super().__delattr__") and self.CLS == "Module" and not kws:
            a = [self.ex(x, env) for x in c.args]
            if ftxt.endswith("__setattr__") and [k for _, k in a] == ["str", "pyval"]:
                self.hoist_prog(f"nn_Module___setattr__ {GA} P {sv} {a[0][0]} {a[1][0]}")
                return self.flush(d) + nxt(env, alias, d)
            if ftxt.endswith("__delattr__") and [k for _, k in a] == ["str"]:
                t = self.hoist(f"nn_Module___delattr__ {sv} {a[0][0]}")
                return self.flush(d) + f"{I}let {sv} := {t}\n" + nxt(env, alias, d)
        if isinstance(f, ast.Attribute) and f.attr == "__set__" and len(c.args) == 2 and not kws and self.is_sv(c.args[0]):
            dv, dk = self.ex(f.value, env)
            v, k = self.ex(c.args[1], env)
            if dk.startswith("descr:") and k == "pyval":
                self.hoist_prog(f"descriptor___set__ P {sv} {dv} {dk[6:]} {v}")
                return self.flush(d) + nxt(env, alias, d)
        if ftxt == f"{self.pyself}._extras.update" and len(c.args) == 1 and not kws and self.state == "mod":
            e, _ = self.ex(f.value, env)
            v, k = self.ex(c.args[0], env)
            if k == "xdict":
                return self.flush(d) + self.set_extras(f"(dupdate {e} {v})", d) + nxt(env, alias, d)
        # ---- explicit base-class constructor calls: <Class>.__init__(self, …)
        if isinstance(f, ast.Attribute) and f.attr == "__init__" and isinstance(f.value, ast.Name) \
                and f.value.id in mro(self.CLS) and c.args and self.is_sv(c.args[0]):
            key = self.find(f.value.id, "__init__", None)
            if key is None or self.METHODS[key]["cls"] != f.value.id:
                self.err(c, f"{f.value.id}.__init__ is not translated")
            args = self.method_args(c, key, c.args, env, skip_first=True)
            self.hoist_prog(self.call_generated(key, sv, args))
            return self.flush(d) + nxt(env, alias, d)
        # ---- registrations on a module (self of a Module method, or the owner)
        target = None
        if isinstance(f, ast.Attribute) and f.attr in ("register_buffer", "register_parameter", "register_extra",
                                                       "register_load_state_dict_post_hook"):
            if self.state == "mod" and self.is_sv(f.value):
                target = "self"
            elif self.owner_expr(f.value, env) is not None:
                target = "owner"
        if target is not None:
            o = sv if target == "self" else "o_"
            if f.attr == "register_load_state_dict_post_hook" and target == "self" and len(c.args) == 1 and not kws:
                h, kh = self.ex(c.args[0], env)
                if kh == "hookfn":
                    return f"{I}let {sv} := (register_load_state_dict_post_hook {sv} {h})\n" + nxt(env, alias, d)
                self.err(c, "the registered hook is not a translated nested function")
            if f.attr == "register_extra":
                key = self.find("Module", "register_extra", None)
                args = self.method_args(c, key, c.args, env, skip_first=False)
                if target == "self":
                    self.hoist_prog(self.call_generated(key, sv, args))
                    return self.flush(d) + nxt(env, alias, d)
                return self.flush(d) + self.on_owner(self.call_generated(key, "o_", args), d) + nxt(env, alias, d)
            names = ["name", "tensor", "persistent"] if f.attr == "register_buffer" else ["name", "param"]
            given = dict(zip(names, c.args))
            for k_, v_ in kws.items():
                if k_ not in names or k_ in given:
                    self.err(c, "unsupported keyword arguments")
                given[k_] = v_
            if len(c.args) > len(names) or "name" not in given or names[1] not in given:
                self.err(c, "unsupported arguments")
            nm, kn = self.ex(given["name"], env)
            tv, kt = self.ex(given[names[1]], env)
            if kn != "str" or kt != "tval":
                self.err(c, f"registration arguments of kinds {kn}, {kt}")
            extra = ""
            if f.attr == "register_buffer":
                pv, kp = self.ex(given["persistent"], env) if "persistent" in given else ("true", "bool")
                if kp != "bool":
                    self.err(c, f"persistent of kind {kp}")
                extra = f" {pv}"
            prim = f"nn_Module_{f.attr} {GA} P {o} {nm} {tv}{extra}"
            if target == "self":
                t = self.hoist(prim)
                return self.flush(d) + f"{I}let {sv} := {t}\n" + nxt(env, alias, d)
            return self.flush(d) + self.on_owner(f"ownerPrim o_ ({prim})", d) + nxt(env, alias, d)
        # ---- setattr(<owner>, name, value)
        if ftxt == "setattr" and len(c.args) == 3 and not kws and self.state == "robj":
            own = self.owner_expr(c.args[0], env)
            if own is None:
                self.err(c, "setattr on something else than the owner")
            nm, kn = self.ex(c.args[1], env)
            v, k = self.ex(c.args[2], env)
            if kn != "str":
                self.err(c, f"attribute name of kind {kn}")
            pv = self.topy(v, k, c.args[2])
            return self.flush(d) + self.on_owner(f"py_setattr {SA} {GA} P o_ {nm} {pv}", d) + nxt(env, alias, d)
        self.err(c, "unsupported call statement")

    def assign(self, s: ast.Assign, env, alias, d, nxt) -> str:
        I = self.ind(d)
        t = s.targets[0]
        sv = self.sv
        # tuple unpacking of `target.rpartition(".")`
        if isinstance(t, ast.Tuple) and len(t.elts) == 3 and all(isinstance(e, ast.Name) for e in t.elts):
            v, k = self.ex(s.value, env)
            if k == "str3":
                env = dict(env)
                tmp = self.tmp("p")
                out = self.flush(d) + f"{I}let {tmp} := {v}\n"
                for e, proj in zip(t.elts, ("1", "2.1", "2.2")):
                    if e.id != "_":
                        out += f"{I}let {lname(e.id)} := {tmp}.{proj}\n"
                        env[e.id] = (lname(e.id), "str")
                return out + nxt(env, alias, d)
        if isinstance(t, ast.Name):
            # constrained = cls(...)   (classmethod `create`)
            if self.spec.get("create") and isinstance(s.value, ast.Call) and isinstance(s.value.func, ast.Name) \
                    and s.value.func.id == "cls" and self.sv is None:
                key = self.find(self.CLS, "__init__", None)
                if key is None or self.METHODS[key]["cls"] != self.CLS:
                    self.err(s, "the class's constructor is not translated")
                first = s.value.args[0] if s.value.args else None
                if not (isinstance(first, ast.Name) and first.id == "owner"):
                    self.err(s, "first constructor argument is not `owner`")
                self.sv, self.pyself = lname(t.id), t.id
                env = dict(env)
                env["owner"] = ("owner", "owner")       # from here on THE owner of the constructed object
                args = self.method_args(s.value, key, s.value.args, env, skip_first=False)
                head = self.flush(d)
                return (head + f"{I}let {self.sv} := (← {self.call_generated(key, '(object___new__ owner)', args)}).1\n"
                        + nxt(env, alias, d))
            v, k = self.ex(s.value, env)
            al = k.endswith(":alias")
            k = k.split(":")[0] if al else k
            if t.id == "_":
                return self.flush(d) + f"{I}let _ := {v}\n" + nxt(env, alias, d)
            if k in ("none", "selfmod") or k.startswith("selfobj"):
                self.err(s, f"local bound to a value of kind {k}")
            if t.id in env and env[t.id][1].split(":")[0] not in (k, "shapearg") and not (env[t.id][1] == "optcons" and k == "cons"):
                self.err(s, f"local rebound with another kind ({env[t.id][1]} -> {k})")
            env, alias = dict(env), dict(alias)
            env[t.id] = (lname(t.id), k)
            alias[t.id] = al
            return self.flush(d) + f"{I}let {lname(t.id)} := {v}\n" + nxt(env, alias, d)
        # _extras[name] = value   on a local that aliases self.__dict__["_extras"]
        if isinstance(t, ast.Subscript) and isinstance(t.value, ast.Name) and env.get(t.value.id, ("", ""))[1] == "xdict" \
                and alias.get(t.value.id) and self.state == "mod":
            e = env[t.value.id][0]
            k_, kk = self.ex(t.slice, env)
            v, kv = self.ex(s.value, env)
            if kk == "str" and kv == "pyval":
                return (self.flush(d) + f"{I}let {e} := (dset {e} {k_} {v})\n" + self.set_extras(e, d)
                        + nxt(env, alias, d))
        # self._extras[name] = value
        if isinstance(t, ast.Subscript) and self.sv_attr(t.value) == "_extras" and self.state == "mod":
            e, _ = self.ex(t.value, env)
            k_, kk = self.ex(t.slice, env)
            v, kv = self.ex(s.value, env)
            if kk == "str" and kv == "pyval":
                return self.flush(d) + self.set_extras(f"(dset {e} {k_} {v})", d) + nxt(env, alias, d)
        # value.data = x   (a local Parameter)
        if isinstance(t, ast.Attribute) and t.attr == "data" and isinstance(t.value, ast.Name) \
                and env.get(t.value.id, ("", ""))[1] == "tval":
            v, k = self.ex(s.value, env)
            if k == "tval":
                nm = env[t.value.id][0]
                return self.flush(d) + f"{I}let {nm} := (TVal.setData {nm} {v})\n" + nxt(env, alias, d)
        # self.<attr>.data = x   (a tensor held by the module)
        if isinstance(t, ast.Attribute) and t.attr == "data" and self.sv_attr(t.value) is not None and self.state == "mod":
            cur, kc = self.ex(t.value, env)                 # evaluates `self.<attr>` (may raise)
            if kc != "pyval":
                self.err(s, f"`.data` assigned on kind {kc}")
            self.hoist(f"as_tensor_recv {cur}")
            v, k = self.ex(s.value, env)
            if k != "tval":
                self.err(s, f"`.data` assigned a value of kind {k}")
            t2 = self.hoist(f"setattr_data {sv} {json.dumps(t.value.attr)} {v}")
            return self.flush(d) + f"{I}let {sv} := {t2}\n" + nxt(env, alias, d)
        a = self.sv_attr(t)
        if a is not None and self.state == "robj":
            p = self.private(t)
            if p == "__owner":
                if ast.unparse(s.value) == "weakref.ref(owner)" and self.owner_expr(ast.Name("owner"), env) is not None:
                    return f"{I}let {sv} := {{ {sv} with {OWNER_FLAG[self.CLS]} := true }}\n" + nxt(env, alias, d)
                self.err(s, "the private owner reference is not `weakref.ref(owner)`")
            if p is not None and (self.CLS, p) in PRIVATE:
                fld, kind = PRIVATE[(self.CLS, p)]
                v, k = self.ex(s.value, env)
                if k != kind:
                    self.err(s, f"{p} assigned a value of kind {k}")
                return self.flush(d) + f"{I}let {sv} := {{ {sv} with {fld} := some {v} }}\n" + nxt(env, alias, d)
            self.err(s, "unsupported assignment to an attribute of the tensor-attribute object")
        if a is not None and self.state == "mod":
            if a.startswith("__") and not a.endswith("__"):
                self.err(s, "assignment to a private attribute")
            setter = self.find(self.CLS, a, f"{a}.setter")
            v, k = self.ex(s.value, env)
            if setter is not None:
                (want,) = self.METHODS[setter]["params"].values()
                if k == "pyval" and want == "tval":
                    v, k = self.hoist(f"as_tensor_arg {v}"), "tval"
                if k != want:
                    self.err(s, f"property {a} assigned a value of kind {k}")
                self.hoist_prog(self.call_generated(setter, sv, [v]))
                return self.flush(d) + nxt(env, alias, d)
            if self.find(self.CLS, a, "property") is not None:
                self.err(s, f"assignment to the property {a}, whose setter is not translated")
            self.hoist_prog(f"Module___setattr__ P {sv} {json.dumps(a)} {self.topy(v, k, s.value)}")
            return self.flush(d) + nxt(env, alias, d)
        self.err(s, "unsupported assignment")

    def assigned(self, stmts) -> list[str]:
        out = []
        for s in stmts:
            if isinstance(s, ast.Assign):
                for t in s.targets:
                    x = t.value if isinstance(t, (ast.Attribute, ast.Subscript)) else t
                    for e in (x.elts if isinstance(x, ast.Tuple) else [x]):
                        if isinstance(e, ast.Name) and e.id not in out:
                            out.append(e.id)
            elif isinstance(s, ast.If):
                for x in self.assigned(s.body) + self.assigned(s.orelse):
                    if x not in out:
                        out.append(x)
            elif isinstance(s, (ast.Try, ast.For, ast.While, ast.With)):
                self.err(s, "unsupported statement inside a conditional")
        return out

    def if_stmt(self, s: ast.If, rest, env, alias, d, cont) -> str:
        body, orelse = list(s.body), list(s.orelse)
        if self.terminates(body) and not self.terminates(orelse):
            orelse, rest = orelse + rest, []
        elif orelse and self.terminates(orelse) and not self.terminates(body):
            body, rest = body + rest, []
        k = cont if not rest else (lambda e, a, dd: self.block(rest, e, a, dd, cont))
        if not rest or self.has_return(body + orelse):
            return self.branch(s.test, body, orelse, env, alias, d, k)
        return self.join_if(s, body, orelse, rest, env, alias, d, cont)

    def opt_refine(self, test, env):
        """`X is not None and <rest>` on an optional local -> (X, rest test or None)"""
        def is_not_none(t):
            return (isinstance(t, ast.Compare) and len(t.ops) == 1 and isinstance(t.ops[0], ast.IsNot)
                    and isinstance(t.comparators[0], ast.Constant) and t.comparators[0].value is None
                    and isinstance(t.left, ast.Name) and env.get(t.left.id, ("", ""))[1] == "optxdict")
        if is_not_none(test):
            return test.left.id, None
        if isinstance(test, ast.BoolOp) and isinstance(test.op, ast.And) and is_not_none(test.values[0]):
            others = test.values[1:]
            return test.values[0].left.id, (others[0] if len(others) == 1 else ast.BoolOp(ast.And(), others))
        return None

    def branch(self, test, body, orelse, env, alias, d, cont) -> str:
        I = self.ind(d)
        ref = self.opt_refine(test, env)
        if ref is not None:
            nm, more = ref
            v = env[nm][0]
            env_s = dict(env)
            env_s[nm] = (v, "xdict")
            out = f"{I}match {v} with\n{I}| some {v} =>\n"
            if more is None:
                out += self.block(body, env_s, alias, d + 1, cont)
            else:
                out += self.branch(more, body, orelse, env_s, alias, d + 1, cont)
            return out + f"{I}| none =>\n" + self.block(orelse, env, alias, d + 1, cont)
        c, kc = self.ex(test, env)
        if kc != "bool":
            self.err(test, f"condition of kind {kc}")
        head = self.flush(d)
        return (head + f"{I}if {c} then\n" + self.block(body, env, alias, d + 1, cont)
                + f"{I}else\n" + self.block(orelse, env, alias, d + 1, cont))

    def join_if(self, s, body, orelse, rest, env, alias, d, cont) -> str:
        """a conditional that falls through into `rest`: its branches return the state and the locals they rebind"""
        I = self.ind(d)
        names = [x for x in self.assigned(body + orelse) if x in env]
        tup = ", ".join([self.sv] + [env[x][0] for x in names])
        tup = f"({tup})" if names else self.sv
        leaf = lambda e, a, dd: f"{self.ind(dd)}pure {('(' + ', '.join([self.sv] + [e[x][0] for x in names]) + ')') if names else self.sv}\n"   # noqa: E731
        ref = self.opt_refine(s.test, env)
        if ref is None:
            c, kc = self.ex(s.test, env)             # evaluated BEFORE the joined block
            if kc != "bool":
                self.err(s.test, f"condition of kind {kc}")
            head = self.flush(d)
            inner = (f"{self.ind(d + 1)}if {c} then\n" + self.block(body, env, alias, d + 2, leaf)
                     + f"{self.ind(d + 1)}else\n" + self.block(orelse, env, alias, d + 2, leaf))
        else:
            head = ""
            inner = self.branch(s.test, body, orelse, env, alias, d + 1, leaf)
        out = head + f"{I}let {tup} ← (do\n{inner}{I}  : {self.monad} _)\n"
        return out + self.block(rest, env, alias, d, cont)

    # ------------------------------------------------------------------ whole function
    def emit(self) -> str:
        spec, sig = self.spec, self.sigs[self.name]
        where = f"{self.SRC}::{self.CLS}.{spec['py']}" + (f".{spec['nested']}" if spec.get("nested") else "")
        drop = set(spec.get("drop", []))
        if spec.get("nested"):
            first = sig["first"]
            if first != self.pyself:
                raise TranslateError(where, f"first parameter is {first}, expected {self.pyself}")
        params = [p for p in sig["order"] if p not in drop]
        if params != list(spec["params"]) or not drop <= set(sig["order"]) | {"cls"}:
            raise TranslateError(where, f"signature changed: {sig['order']} (expected {list(spec['params'])} + dropped {sorted(drop)})")
        pt = spec.get("passthrough", (None, None))
        if (sig["vararg"], sig["kwarg"]) != pt:
            raise TranslateError(where, f"signature changed: *{sig['vararg']}, **{sig['kwarg']}")
        env = {p: (lname(p), k) for p, k in spec["params"].items()}
        plist = [(lname(p), self.LEAN_TY[k]) for p, k in spec["params"].items()]
        if "owner" in drop:
            env["owner"] = ("self.owner", "owner")
        ret = spec["ret"]
        if spec.get("create"):
            self.sv = None
        tail = (lambda e, a, dd: f"{self.ind(dd)}pure ({self.sv}, ())\n") if ret == "unit" else \
               (lambda e, a, dd: self.err(self.fdef, "falls off the end without returning"))
        body = self.block(list(self.fdef.body), env, {}, 1, tail)
        ptxt = "".join(f" ({p} : {t})" for p, t in plist)
        if self.state == "acc":
            return (f"def {self.name} (self : {self.STATE_TY}) : Except (InfernoVerif.Updater.Err × {self.STATE_TY}) "
                    f"({self.STATE_TY} × Unit) := do\n" + body)
        ctx = "(P : PyEnv β τ)" + (" (F : TorchFns β)" if self.F else "")
        st = "" if spec.get("create") else f" (self : {self.STATE_TY})"
        return (f"def {self.name} {ctx}{st}{ptxt} : Except (Err × {self.STATE_TY}) ({self.STATE_TY} × {self.LEAN_TY[ret]}) := do\n"
                + body)


def locate(trees: dict, key: str, spec: dict) -> ast.FunctionDef:
    where = f"{spec['src']}::{spec['cls']}.{spec['py']}"
    tree = trees[spec["src"]]
    cls = next((n for n in tree.body if isinstance(n, ast.ClassDef) and n.name == spec["cls"]), None)
    if cls is None:
        raise TranslateError(spec["src"], f"class {spec['cls']} not found")
    bases = [b.id for b in cls.bases if isinstance(b, ast.Name)]
    for b in BASES[spec["cls"]]:
        if b not in bases:
            raise TranslateError(where, f"base classes changed: {bases}")
    want = [spec["decorator"]] if spec.get("decorator") and not spec.get("nested") else []
    found = [n for n in cls.body if isinstance(n, ast.FunctionDef) and n.name == spec["py"]
             and [ast.unparse(d) for d in n.decorator_list] == want]
    if len(found) != 1:
        raise TranslateError(where, f"{len(found)} definitions with decorators {want}")
    f = found[0]
    if spec.get("nested"):
        inner = [n for n in f.body if isinstance(n, ast.FunctionDef) and n.name == spec["nested"]]
        if len(inner) != 1 or inner[0].decorator_list:
            raise TranslateError(where, f"{len(inner)} nested definitions of {spec['nested']}")
        return inner[0]
    return f


def signature(f: ast.FunctionDef, spec: dict) -> dict:
    a = f.args
    pos = [x.arg for x in a.posonlyargs + a.args]
    first = pos[0] if pos else None
    want_first = "cls" if spec.get("decorator") == "classmethod" else spec.get("selfname", "self")
    if first != want_first:
        raise TranslateError(f"{spec['src']}::{spec['cls']}.{f.name}", f"first parameter is {first}, expected {want_first}")
    pos = pos[1:]
    order = pos + [x.arg for x in a.kwonlyargs]
    defaults = dict(zip(pos[len(pos) - len(a.defaults):], a.defaults))
    defaults.update({x.arg: dflt for x, dflt in zip(a.kwonlyargs, a.kw_defaults) if dflt is not None})
    return {"order": order, "defaults": defaults, "first": first, "vararg": a.vararg.arg if a.vararg else None,
            "kwarg": a.kwarg.arg if a.kwarg else None}


def regenerate() -> dict:
    """regenerates Gen/PersistProg.lean; same return shape as `progtx.regenerate_class`"""
    T = PersistTx
    srcs = {p: (REPO / p).read_text() for p in (INFRA, SIMPLE, MODELING)}
    trees = {p: ast.parse(s) for p, s in srcs.items()}
    fdefs = {k: locate(trees, k, s) for k, s in T.METHODS.items()}
    sigs = {k: signature(f, T.METHODS[k]) for k, f in fdefs.items()}
    text = T.HEADER
    info = {}
    for k, s in T.METHODS.items():
        seg = ast.get_source_segment(srcs[s["src"]], fdefs[k]) or ""
        sha = hashlib.sha256(seg.encode()).hexdigest()[:16]
        dec = f" (`@{s['decorator']}`)" if s.get("decorator") else ""
        qual = f"{s['cls']}.{s['py']}" + (f".{s['nested']}" if s.get("nested") else "")
        text += f"\n/-- from `{s['src']}` :: `{qual}`{dec} (sha256 of source segment {sha}) -/\n" + T(k, fdefs[k], sigs).emit()
        info[k] = sha
    text += f"\nend {T.NAMESPACE}\n"
    p = GEN / T.OUT
    changed = not p.exists() or p.read_text() != text
    if changed:
        p.write_text(text)
    return {"functions": info, "rewritten": changed}


if __name__ == "__main__":
    print(json.dumps(regenerate(), indent=1))
