"""Statement-level translator, connection classes (DESIGN §12.5, properties C05 / C06): whole METHOD BODIES of
`LinearDense`, `LinearDirect`, `LinearLateral` (`inferno/neural/connections/linear.py`), `Conv2D`
(`connections/conv.py`), the parameter mixins `WeightMixin` / `WeightBiasMixin` / `WeightBiasDelayMixin`
(`connections/mixins.py`) and `Connection` (`inferno/neural/base.py`) → Lean `Except Err` programs over one state
record per receiver class (`Gen/ConnPrelude.lean`), regenerated on every run as `Gen/ConnProg.lean` (core Lean only).

What is translated: the ROOTS below and, automatically, everything they reach through `self.<property>`,
`self.<method>(…)`, `<Class>.<property>.fget(self)` / `.fset(self, v)` and `<Class>.<method>(self, …)`.  Python
dispatches on the class of `self`, so every body is regenerated once per RECEIVER class it is reached from
(`LinearLateral.forward` is `LinearDense.forward` run on a `LinearLateral`: its `self.weight`, `self.selector`,
`self.outshape` are the lateral's).  Names are resolved along the base classes defined in the four source files
(depth first, left to right — the MRO of these hierarchies; `torch.nn.Module`, `Updatable`, `ABC` are assumed not to
define the names used).  Generated name: `<Receiver>_<method>` when the receiver class defines the method itself,
`<Receiver>__<DefiningClass>_<method>` otherwise; `_setter` for a property setter.

What is kept from the source, statement by statement and in SOURCE ORDER: the `hasattr(self, "bias_")` /
`hasattr(self, "delay_")` tests of the mixin getters and setters (a missing attribute makes the getter fall off the
end — `None` — and the setter a no-op), `.data = value`, the mask multiplication `value * self.mask` of the lateral
setters BEFORE the mixin setter is called, `delayedby` (`self.delay is not None` → `self.synapse.delay`), the
TRUTHINESS test `if self.delayedby:` of `forward` / `syncurrent` / `synspike` versus the `is not None` test of
`selector`, the synapse call with the generator of `like_synaptic`'d inputs, both einsum / matmul / `F.linear`
branches with their argument order and patterns, the `biased` split, `view(-1, *self.outshape)`, `expand(self.batchsz,
…)`, every einops pattern string (a pattern that is not in the vocabulary is refused), and the constructor chain
`WeightBiasDelayMixin.__init__ → WeightBiasMixin.__init__ → WeightMixin.__init__` (`register_parameter` of `bias_` /
`delay_` only when the argument is not `None`).  Of `LinearLateral.__init__` three EXPRESSIONS are extracted (the rest
of the constructor — argument validation in `try`, the synapse constructor, the initialiser calls — is not
translated): the `mask` buffer `1 - torch.eye(size)` and the `weight=` / `delay=` arguments of the mixin constructor
call (`torch.rand(size, size)` is a parameter of the generated function).

Decisions instead of user code / data properties: the synapse is reached through the interface `Y : SynI`
(`Gen/ConnPrelude.lean`); truthiness of a float is `nz`; `torch.is_floating_point(data)` is the Boolean `fp`;
`.to(dtype=…)` is the identity; `**kwargs` only handed on to the synapse are dropped.

Programs of read-only methods are `Except Err ρ`, programs of the setters, constructors and `forward` are
`Except Err (state × ρ)`; an exception does not carry the state (the only assignment that can precede a raise is the
stepped synapse of `forward`; the models `Model/Conn.lean`, `Model/Delay.lean` have no state after an error).
Anything outside this sub-language raises `TranslateError` naming the node.  `Props/C05GlueProg.lean` proves the
generated programs equal to the functions of `Model/Conn.lean` and `Model/Delay.lean`.
"""
from __future__ import annotations

import ast
import hashlib
import json

import progtx
from progtx import Tx
from translate import GEN, REPO, TranslateError, lname

FILES = {
    "linear": "inferno/neural/connections/linear.py",
    "conv": "inferno/neural/connections/conv.py",
    "mixins": "inferno/neural/connections/mixins.py",
    "base": "inferno/neural/base.py",
}

# ------------------------------------------------------------------------------------------------ kinds
# mat vec t3 t4 tensor scalar nat shape pair bool unit syn none inputs | opt<k> | b<k> (Bool elements) |
# view:<cur>:<sel> bview:<cur>:<sel> | f11:<vec|optvec> (bias seen as "1 f 1 1") | synshape dtype
BASE_TY = {"mat": "Mat α", "vec": "Vec α", "t3": "T3 α", "t4": "T4 α", "tensor": "Tensor α", "scalar": "α",
           "nat": "Nat", "shape": "List Nat", "pair": "Nat × Nat", "bool": "Bool", "unit": "Unit", "syn": "σ",
           "bmat": "Mat Bool", "bt3": "T3 Bool", "bt4": "T4 Bool"}


def ty(kind: str) -> str:
    if kind in BASE_TY:
        return BASE_TY[kind]
    if kind.startswith("opt"):
        return f"Option ({ty(kind[3:])})"
    if kind.startswith("view:"):
        _, c, s = kind.split(":")
        return f"SView ({ty(c)}) ({ty(s)})"
    if kind.startswith("bview:"):
        _, c, s = kind.split(":")
        return f"SView ({ty('b' + c)}) ({ty('b' + s)})"
    if kind.startswith("list:"):
        return f"List ({ty(kind[5:])})"
    raise KeyError(kind)


LINEAR_Y = "SynI σ α (Tensor α) Mat T3"
RECV = {
    "LinearDense": {
        "state": "DenseS σ α", "Y": LINEAR_Y, "w": "mat", "cur": "mat", "sel": "t3", "inp": "tensor", "syninp": "tensor",
        "out": "tensor",
        "fields": {"synapse_": "syn", "weight_": "mat", "bias_": "optvec", "delay_": "optmat", "in_shape": "shape",
                   "out_shape": "shape"}},
    "LinearDirect": {
        "state": "DirectS σ α", "Y": LINEAR_Y, "w": "vec", "cur": "mat", "sel": "t3", "inp": "tensor", "syninp": "tensor",
        "out": "tensor",
        "fields": {"synapse_": "syn", "weight_": "vec", "bias_": "optvec", "delay_": "optvec", "shape": "shape"}},
    "LinearLateral": {
        "state": "LateralS σ α", "Y": LINEAR_Y, "w": "mat", "cur": "mat", "sel": "t3", "inp": "tensor", "syninp": "tensor",
        "out": "tensor",
        "fields": {"synapse_": "syn", "weight_": "mat", "bias_": "optvec", "delay_": "optmat", "shape": "shape",
                   "mask": "mat"}},
    "Conv2D": {
        "state": "ConvS σ α", "Y": "SynI σ α (T3 α) T3 T4", "w": "t4", "cur": "t3", "sel": "t4", "inp": "t4", "syninp": "t3",
        "out": "t4", "ctx": [("fp", "Bool")],
        "fields": {"synapse_": "syn", "weight_": "t4", "bias_": "optvec", "delay_": "optt4", "height": "nat", "width": "nat",
                   "channels": "nat", "filters": "nat", "kernel": "pair", "stride": "pair", "padding": "pair",
                   "dilation": "pair", "outheight": "nat", "outwidth": "nat"}},
}

# signatures (symbolic kinds `w cur sel inp syninp out view bview` are substituted per receiver):
# (defining class, method, decorator) -> (params, ret[, mutating])
CONN_METHODS = {
    "outshape": ({}, "shape", "property"), "selector": ({}, "sel", "property"),
    "like_synaptic": ({"data": "inp"}, "syninp", None), "forward": ({"inputs": "list:inp"}, "out", None, True),
}
SIGS = {
    ("WeightMixin", "weight", "property"): ({}, "w"),
    ("WeightMixin", "weight", "weight.setter"): ({"value": "w"}, "unit", True),
    ("WeightMixin", "__init__", None): ({"weight": "w"}, "unit", True),
    ("WeightBiasMixin", "bias", "property"): ({}, "optvec"),
    ("WeightBiasMixin", "bias", "bias.setter"): ({"value": "vec"}, "unit", True),
    ("WeightBiasMixin", "__init__", None): ({"weight": "w", "bias": "optvec"}, "unit", True),
    ("WeightBiasDelayMixin", "delay", "property"): ({}, "optw"),
    ("WeightBiasDelayMixin", "delay", "delay.setter"): ({"value": "w"}, "unit", True),
    ("WeightBiasDelayMixin", "__init__", None): ({"weight": "w", "bias": "optvec", "delay": "optw"}, "unit", True),
    ("Connection", "synapse", "property"): ({}, "syn"),
    ("Connection", "batchsz", "property"): ({}, "nat"),
    ("Connection", "biased", "property"): ({}, "bool"),
    ("Connection", "delayedby", "property"): ({}, "optscalar"),
    ("Connection", "syncurrent", "property"): ({}, "view"),
    ("Connection", "synspike", "property"): ({}, "bview"),
    ("LinearLateral", "weight", "property"): ({}, "w"),
    ("LinearLateral", "weight", "weight.setter"): ({"value": "w"}, "unit", True),
    ("LinearLateral", "delay", "property"): ({}, "optw"),
    ("LinearLateral", "delay", "delay.setter"): ({"value": "w"}, "unit", True),
    ("Conv2D", "like_input", None): ({"data": "t3"}, "t4"),
    ("Conv2D", "presyn_receptive", None): ({"data": "tensor"}, "tensor"),
    ("Conv2D", "postsyn_receptive", None): ({"data": "tensor"}, "tensor"),
}
for _c in ("LinearDense", "LinearDirect", "LinearLateral", "Conv2D"):
    for _m, _s in CONN_METHODS.items():
        SIGS[(_c, _m, _s[2])] = (_s[0], _s[1]) + tuple(_s[3:])
# parameters that are not translated (`requires_grad` of the mixin constructors: gradients are not modelled)
DROPPED_PARAMS = {"requires_grad"}
# extra instance binders of a generated definition, by method name
EXTRA_INST = {"like_input": "[Div α] [One α]"}

# what is generated: (receiver, method, decorator); everything these reach is generated too (callees first)
ROOTS = [
    ("LinearDense", "selector", "property"), ("LinearDense", "syncurrent", "property"),
    ("LinearDense", "synspike", "property"), ("LinearDense", "forward", None),
    ("LinearDirect", "selector", "property"), ("LinearDirect", "syncurrent", "property"),
    ("LinearDirect", "synspike", "property"), ("LinearDirect", "forward", None),
    ("LinearLateral", "weight", "weight.setter"), ("LinearLateral", "delay", "delay.setter"),
    ("LinearLateral", "bias", "bias.setter"),
    ("LinearLateral", "selector", "property"), ("LinearLateral", "syncurrent", "property"),
    ("LinearLateral", "synspike", "property"), ("LinearLateral", "forward", None),
    ("LinearLateral", "WeightBiasDelayMixin.__init__", None),
    ("Conv2D", "selector", "property"), ("Conv2D", "syncurrent", "property"), ("Conv2D", "synspike", "property"),
    ("Conv2D", "forward", None), ("Conv2D", "like_input", None), ("Conv2D", "presyn_receptive", None),
    ("Conv2D", "postsyn_receptive", None),
]
# expression sites of `LinearLateral.__init__`: name -> (parameters, kind of the result)
SITES = {
    "LinearLateral_init_mask": ({"size": "nat"}, "mat"),
    "LinearLateral_init_weight": ({"size": "nat", "mask": "mat", "rand": "mat"}, "mat"),
    "LinearLateral_init_delay": ({"size": "nat", "mask": "mat", "delay": "optscalar"}, "optmat"),
}
SITE_INST = "{α : Type} [Add α] [Mul α] [Zero α] [One α] [Sub α]"

REARRANGE = {
    # pattern -> {kind of the argument: (primitive, monadic, kind of the result)}
    "o i -> 1 i o": {"mat": ("rearrange_oi_1io", False, "t3")},
    "n -> 1 n 1": {"vec": ("rearrange_n_1n1", False, "t3")},
    "b n 1 -> b n": {"t3": ("rearrange_bn1_bn", True, "mat")},
    "b ... -> b (...)": {"tensor": ("rearrange_b_flat", True, "tensor")},
    "f c h w -> f (c h w)": {"t4": ("rearrange_fchw_f_chw", False, "mat")},
    "f c h w -> 1 (c h w) 1 f": {"t4": ("rearrange_fchw_1_chw_1_f", False, "t4")},
    "b n l f -> b f n l": {"t4": ("rearrange_bnlf_bfnl", False, "t4")},
    "b f oh ow -> b f 1 1 1 (oh ow)": {"tensor": ("rearrange_postsyn_conv", True, "tensor")},
}
EINSUM = {
    "b i o, o i -> b o": (("t3", "mat"), "einsum_bio_oi_bo", "mat"),
    "f n, b f n l -> b f l": (("mat", "t4"), "einsum_fn_bfnl_bfl", "t3"),
}

HEADER = """import InfernoVerif.Gen.ConnPrelude
/-! GENERATED by harness/progtx_conn.py from inferno/neural/connections/linear.py, conv.py, mixins.py and
inferno/neural/base.py — do not edit.
Whole method bodies as `Except Err` programs, one copy per receiver class (`DenseS`, `DirectS`, `LateralS`, `ConvS`);
`Y` is the synapse interface, `nz` Python's truthiness of a float, `fp` the answer of `torch.is_floating_point`.
Vocabulary: Gen/ConnPrelude.lean. -/
set_option linter.unusedVariables false
namespace InfernoVerif.Gen.ConnProg
open InfernoVerif.Conn InfernoVerif.Gen.ConnPrelude
"""
NAMESPACE = "InfernoVerif.Gen.ConnProg"
INST = "{σ α : Type} [Add α] [Mul α] [Zero α]"


def docless(body):
    return [s for s in body if not (isinstance(s, ast.Expr) and isinstance(s.value, ast.Constant)
                                    and isinstance(s.value.value, str))]


class World:
    """the classes of the four source files and the definitions generated so far"""

    def __init__(self):
        self.classes = {}          # name -> (ClassDef, file, source text)
        for f in FILES.values():
            src = (REPO / f).read_text()
            for n in ast.parse(src).body:
                if isinstance(n, ast.ClassDef):
                    if n.name in self.classes:
                        raise TranslateError(f, f"class {n.name} defined twice in the source files")
                    self.classes[n.name] = (n, f, src)
        for c in list(RECV) + ["WeightMixin", "WeightBiasMixin", "WeightBiasDelayMixin", "Connection"]:
            if c not in self.classes:
                raise TranslateError("connections", f"class {c} not found")
        self.done = {}             # key -> (text, sha, spec)
        self.order = []
        self.active = []

    def mro(self, cls: str) -> list[str]:
        out = [cls]
        for b in self.classes[cls][0].bases:
            if isinstance(b, ast.Name) and b.id in self.classes:
                for c in self.mro(b.id):
                    if c not in out:
                        out.append(c)
        return out

    def defs(self, cls: str, attr: str) -> list[ast.FunctionDef]:
        return [f for f in self.classes[cls][0].body if isinstance(f, ast.FunctionDef) and f.name == attr]

    def lookup(self, node_where, start: str, attr: str):
        """first class along the bases of `start` that defines `attr` -> (class, its definitions of attr)"""
        for c in self.mro(start):
            ds = self.defs(c, attr)
            if ds:
                return c, ds
            for s in self.classes[c][0].body:
                if isinstance(s, ast.Assign) and any(isinstance(t, ast.Name) and t.id == attr for t in s.targets):
                    raise TranslateError(node_where, f"{attr} is a class attribute of {c}")
        return None, []

    def request(self, where, recv: str, dcls: str, py: str, dec) -> str:
        """generated definition of `dcls.py` (decorator `dec`) for receiver class `recv`"""
        key = (f"{recv}_{py}" if dcls == recv else f"{recv}__{dcls}_{py}") + ("_setter" if dec and dec.endswith(".setter") else "")
        if key in self.done:
            return key
        if key in self.active:
            raise TranslateError(where, f"recursive reference to {key}")
        found = [f for f in self.defs(dcls, py) if [ast.unparse(d) for d in f.decorator_list
                                                     if ast.unparse(d) != "abstractmethod"] == ([dec] if dec else [])]
        if len(found) != 1:
            raise TranslateError(where, f"{dcls}.{py}: {len(found)} definitions with decorators {[dec] if dec else []}")
        if (dcls, py, dec) not in SIGS:
            raise TranslateError(where, f"{dcls}.{py} ({dec}) is not in the translated sub-language (no signature)")
        self.active.append(key)
        tx = ConnTx(self, key, recv, dcls, py, dec, found[0])
        text = tx.emit()
        self.active.pop()
        _, f, src = self.classes[dcls]
        seg = ast.get_source_segment(src, found[0]) or ""
        sha = hashlib.sha256(seg.encode()).hexdigest()[:16]
        d = f" (`@{dec}`)" if dec else ""
        doc = f"/-- from `{f}` :: `{dcls}.{py}`{d}, receiver `{recv}` (sha256 of source segment {sha}) -/\n"
        self.done[key] = (doc + text, sha, tx.spec)
        self.order.append(key)
        return key


class ConnTx(Tx):
    SRC = "inferno/neural/connections"
    CLS = None
    METHODS: dict = {}           # filled by `regenerate` (key -> spec), for inspection
    LEAN_TY = BASE_TY
    STATE_TY = None
    DROPPED_PARAMS = DROPPED_PARAMS
    OUT = "ConnProg.lean"
    NAMESPACE = NAMESPACE
    HEADER = HEADER

    def __init__(self, world: World, key: str, recv: str, dcls: str | None, py: str, dec, fdef, site=None):
        self.world, self.key, self.recv, self.dcls, self.py, self.dec, self.fdef = world, key, recv, dcls, py, dec, fdef
        self.name = key
        self.R = RECV[recv]
        self.STATE_TY = self.R["state"]
        self.CLS = dcls
        self.SRC = world.classes[dcls][1] if dcls else FILES["linear"]
        self.fresh = 0
        if site is None:
            sig = SIGS[(dcls, py, dec)]
            self.spec = {"params": {p: self.subst(k) for p, k in sig[0].items()}, "ret": self.subst(sig[1]),
                         "mut": len(sig) > 2 and bool(sig[2]), "recv": recv, "cls": dcls, "py": py, "decorator": dec}
        else:
            self.spec = {"params": dict(site[0]), "ret": site[1], "mut": False, "recv": recv, "cls": dcls, "py": py,
                         "decorator": None, "site": True}
        self.sigs = {}

    # ------------------------------------------------------------------ helpers
    def subst(self, k: str) -> str:
        R = self.R
        if k in ("w", "cur", "sel", "inp", "syninp", "out"):
            return R[k]
        if k == "optw":
            return "opt" + R["w"]
        if k == "view":
            return f"view:{R['cur']}:{R['sel']}"
        if k == "bview":
            return f"bview:{R['cur']}:{R['sel']}"
        if k.startswith("list:"):
            return "list:" + self.subst(k[5:])
        return k

    def err(self, node, msg):
        where = f"{self.SRC}::{self.dcls}.{self.py}[{self.recv}]:{getattr(node, 'lineno', '?')}"
        raise TranslateError(where, f"{msg}: {ast.unparse(node)[:140] if isinstance(node, ast.AST) else node}")

    @property
    def ctx(self) -> list[tuple[str, str]]:
        return [("Y", self.R["Y"]), ("nz", "α → Bool")] + list(self.R.get("ctx", []))

    @property
    def ctxargs(self) -> str:
        return " ".join(n for n, _ in self.ctx)

    def is_self(self, n) -> bool:
        return isinstance(n, ast.Name) and n.id == "self"

    def coerce(self, node, v: str, k: str, want: str) -> str:
        if k == want:
            return v
        if want == "opt" + k:
            return f"(some {v})"
        if k == "none" and want.startswith("opt"):
            return "none"
        if want.startswith(("view:", "bview:")):
            _, c, s = want.split(":")
            pre = "b" if want.startswith("bview") else ""
            if k == pre + s:
                return f"(SView.delayed {v})"
            if k == pre + c:
                return f"(SView.present {v})"
        self.err(node, f"value of kind {k} where {want} is expected")

    def unify(self, node, kinds: list[str]) -> str:
        ks = set(kinds)
        if len(ks) == 1:
            return kinds[0]
        base = {k[3:] if k.startswith("opt") else k for k in ks if k != "none"}
        if len(base) == 1:
            return "opt" + base.pop()
        self.err(node, f"branches bind kinds {sorted(ks)}")

    def call_of(self, node, recv_start: str, attr: str, dec, args: list[str]) -> tuple[str, dict]:
        """text of the call of the generated definition for `attr` resolved from class `recv_start`"""
        dcls, ds = self.world.lookup(self.where(node), recv_start, attr)
        if dcls is None:
            self.err(node, f"{attr} is not defined along the bases of {recv_start}")
        key = self.world.request(self.where(node), self.recv, dcls, attr, dec)
        spec = self.world.done[key][2]
        a = "".join(" " + x for x in args)
        return f"(← {key} {self.ctxargs} self{a})", spec

    def where(self, node):
        return f"{self.SRC}::{self.dcls}.{self.py}[{self.recv}]:{getattr(node, 'lineno', '?')}"

    def is_property(self, cls_start: str, attr: str) -> bool:
        dcls, ds = self.world.lookup("", cls_start, attr)
        return dcls is not None and any("property" in [ast.unparse(d) for d in f.decorator_list] for f in ds)

    def opt_arg(self, v: str, k: str, base: str, fn: str = "tensorArg"):
        """an argument of kind `base` or `opt<base>` -> text of kind `base`"""
        if k == base:
            return v
        if k == "opt" + base:
            return f"(← {fn} {v})"
        return None

    # ------------------------------------------------------------------ expressions
    def ex(self, n, env):
        if isinstance(n, ast.Constant):
            if n.value is None:
                return "none", "none"
            self.err(n, "unsupported constant")
        if isinstance(n, ast.Name):
            if n.id not in env:
                self.err(n, "unknown name")
            return env[n.id]
        if isinstance(n, ast.Attribute):
            return self.attribute(n, env)
        if isinstance(n, ast.Compare) and len(n.ops) == 1 and isinstance(n.ops[0], (ast.Is, ast.IsNot)) \
                and isinstance(n.comparators[0], ast.Constant) and n.comparators[0].value is None:
            v, k = self.ex(n.left, env)
            if k.startswith("opt"):
                return (f"{v}.isNone" if isinstance(n.ops[0], ast.Is) else f"{v}.isSome"), "bool"
            self.err(n, f"comparison with None on kind {k}")
        if isinstance(n, ast.BinOp):
            return self.binop(n, env)
        if isinstance(n, ast.Subscript):
            return self.subscript(n, env)
        if isinstance(n, ast.Call):
            return self.call(n, env)
        self.err(n, "unsupported expression")

    def attribute(self, n: ast.Attribute, env):
        if self.is_self(n.value):
            a = n.attr
            if f"self.{a}" in env:                       # refined optional attribute / site parameter
                return env[f"self.{a}"]
            if self.spec.get("site"):
                self.err(n, "attribute of self in a constructor expression")
            dcls, ds = self.world.lookup(self.where(n), self.recv, a)
            if dcls is not None:
                if not any("property" in [ast.unparse(d) for d in f.decorator_list] for f in ds):
                    self.err(n, f"{dcls}.{a} is a method used as a value")
                if dcls == "Connection" and a == "synapse":
                    self.check_synapse_property(n, ds)
                txt, spec = self.call_of(n, self.recv, a, "property", [])
                if spec["mut"]:
                    self.err(n, "mutating getter")
                return txt, spec["ret"]
            if a in self.R["fields"]:
                return f"self.{a}", self.R["fields"][a]
            self.err(n, f"unknown attribute of {self.recv}")
        v, k = self.ex(n.value, env)
        if k == "syn":
            cur = self.R["cur"]
            if n.attr == "delay":
                return f"({self.ctx[0][0]}.delay {v})", "scalar"
            if n.attr == "batchsz":
                return f"(Y.batchsz {v})", "nat"
            if n.attr == "current":
                return f"(← Y.current {v})", cur
            if n.attr == "spike":
                return f"(← Y.spike {v})", "b" + cur
            if n.attr == "shape":
                return v, "synshape"
        if n.attr == "dtype" and k in ("mat", "vec", "t3", "t4", "tensor"):
            return "", "dtype"
        self.err(n, f"unsupported attribute of kind {k}")

    def check_synapse_property(self, node, ds):
        g = [f for f in ds if [ast.unparse(d) for d in f.decorator_list] == ["property"]]
        if len(g) != 1 or [ast.unparse(s) for s in docless(g[0].body)] != ["return self.synapse_"]:
            self.err(node, "`Connection.synapse` is not the property returning `self.synapse_`")

    def subscript(self, n: ast.Subscript, env):
        v, k = self.ex(n.value, env)
        i = n.slice
        idx = i.value if isinstance(i, ast.Constant) else (
            -i.operand.value if isinstance(i, ast.UnaryOp) and isinstance(i.op, ast.USub) and isinstance(i.operand, ast.Constant) else None)
        if k == "pair" and idx in (0, 1):
            return f"{v}.{idx + 1}", "nat"
        if k == "synshape" and idx == -1:
            return f"(Y.lastdim {v})", "nat"
        self.err(n, f"unsupported subscript on kind {k}")

    def binop(self, n: ast.BinOp, env):
        if isinstance(n.op, ast.Sub) and isinstance(n.left, ast.Constant) and n.left.value == 1 and type(n.left.value) is int:
            b, kb = self.ex(n.right, env)
            if kb == "mat":
                return f"(rsub_scalar_mat 1 {b})", "mat"
            self.err(n, f"1 - value of kind {kb}")
        a, ka = self.ex(n.left, env)
        b, kb = self.ex(n.right, env)
        if isinstance(n.op, ast.Add):
            if ka == "mat" and kb in ("vec", "optvec"):
                return f"(← add_mat_vec {a} {self.opt_arg(b, kb, 'vec', 'notNone')})", "mat"
            if ka == "t4" and kb in ("f11:vec", "f11:optvec"):
                return f"(← add_t4_f {a} {b})", "t4"
        if isinstance(n.op, ast.Mult):
            if ka == "mat" and kb == "vec":
                return f"(← mul_mat_vec {a} {b})", "mat"
            if ka == "mat" and kb == "mat":
                return f"(← mul_mat {a} {b})", "mat"
        if isinstance(n.op, ast.Div) and ka == "t4" and kb == "t4":
            return f"(← div_t4 {a} {b})", "t4"
        self.err(n, f"unsupported arithmetic on kinds {ka}, {kb}")

    def view_arg(self, v, k, want):
        """`self.syncurrent` handed to an einops function that needs the selector-shaped tensor"""
        if k == want:
            return v
        if k.startswith("view:") and k.split(":")[2] == want:
            return f"(← SView.asSel {v})"
        return None

    def pair_kw(self, n: ast.Call, names, env) -> list[str] | None:
        kw = {k.arg: k.value for k in n.keywords}
        if set(kw) != set(names):
            return None
        out = []
        for nm in names:
            v, k = self.ex(kw[nm], env)
            if k != "pair":
                return None
            out.append(v)
        return out

    def call(self, n: ast.Call, env):
        f = n.func
        ftxt = ast.unparse(f)
        # ---- calls between methods
        if isinstance(f, ast.Attribute) and f.attr in ("fget", "fset") and isinstance(f.value, ast.Attribute) \
                and isinstance(f.value.value, ast.Name) and f.value.value.id in self.world.classes:
            cls, prop = f.value.value.id, f.value.attr
            if not n.args or not self.is_self(n.args[0]) or n.keywords:
                self.err(n, "property function not applied to self")
            if f.attr == "fget" and len(n.args) == 1:
                txt, spec = self.call_of(n, cls, prop, "property", [])
                return txt, spec["ret"]
            if f.attr == "fset" and len(n.args) == 2:
                dcls, _ = self.world.lookup(self.where(n), cls, prop)
                key = self.world.request(self.where(n), self.recv, dcls, prop, f"{prop}.setter")
                spec = self.world.done[key][2]
                (pk,) = spec["params"].values()
                v, k = self.ex(n.args[1], env)
                if k != pk or not self.spec["mut"]:
                    self.err(n, f"setter argument of kind {k} (expected {pk})")
                return f"(← {key} {self.ctxargs} self {v})", "call:unit"
            self.err(n, "unsupported use of a property function")
        target = None
        if isinstance(f, ast.Attribute) and isinstance(f.value, ast.Name):
            if f.value.id == "self":
                dcls, ds = self.world.lookup(self.where(n), self.recv, f.attr)
                if dcls is not None and not self.is_property(self.recv, f.attr):
                    target = (self.recv, f.attr, list(n.args))
            elif f.value.id in self.world.classes and n.args and self.is_self(n.args[0]):
                target = (f.value.id, f.attr, list(n.args[1:]))
        if target is not None:
            start, attr, args = target
            dcls, _ = self.world.lookup(self.where(n), start, attr)
            if dcls is None:
                self.err(n, f"{attr} is not defined along the bases of {start}")
            key = self.world.request(self.where(n), self.recv, dcls, attr, None)
            spec = self.world.done[key][2]
            if spec["mut"] and not self.spec["mut"]:
                self.err(n, "mutating method called from a read-only method")
            params = list(spec["params"].items())
            vals = []
            kws = [k for k in n.keywords if not (k.arg is None and isinstance(k.value, ast.Name) and k.value.id == self.kwarg)]
            kwmap = {k.arg: k.value for k in kws}
            if None in kwmap:
                self.err(n, "**kwargs")
            pos = list(args)
            names = [p for p, _ in params]
            order = self.world_sig(dcls, attr)
            bound = {}
            for i, a in enumerate(pos):
                if isinstance(a, ast.Starred):
                    if i != len(pos) - 1 or not isinstance(a.value, ast.Name) or env.get(a.value.id, ("", ""))[1][:5] != "list:":
                        self.err(n, "unsupported starred argument")
                    bound[order["vararg"]] = a.value
                    continue
                if i >= len(order["pos"]):
                    self.err(n, "too many positional arguments")
                bound[order["pos"][i]] = a
            for k_, v_ in kwmap.items():
                if k_ in bound or k_ not in order["pos"] + order["kwonly"]:
                    self.err(n, f"unexpected keyword argument {k_}")
                bound[k_] = v_
            for p, pk in params:
                if p not in bound:
                    self.err(n, f"missing argument {p}")
                v, k = self.ex(bound[p], env)
                vals.append(self.coerce(bound[p], v, k, pk))
            extra = set(bound) - set(names) - DROPPED_PARAMS
            if extra:
                self.err(n, f"arguments {sorted(extra)} of {dcls}.{attr} are not translated")
            a = "".join(" " + x for x in vals)
            return f"(← {key} {self.ctxargs} self{a})", ("call:" + spec["ret"] if spec["mut"] else spec["ret"])
        # ---- the synapse
        if isinstance(f, ast.Attribute) and f.attr in ("current_at", "spike_at") and len(n.args) == 1 and not n.keywords:
            v, k = self.ex(f.value, env)
            s, ks = self.ex(n.args[0], env)
            if k == "syn" and ks == self.R["sel"]:
                return f"(← Y.{f.attr} {v} {s})", (ks if f.attr == "current_at" else "b" + ks)
            self.err(n, f"synapse read with kinds {k}, {ks}")
        # ---- einops
        if ftxt == "ein.rearrange" and len(n.args) == 2 and isinstance(n.args[1], ast.Constant) and isinstance(n.args[1].value, str):
            pat = n.args[1].value
            v, k = self.ex(n.args[0], env)
            kw = {x.arg: x.value for x in n.keywords}
            if pat == "f -> 1 f 1 1" and k in ("vec", "optvec") and not kw:
                return (v if k == "vec" else f"(← tensorArg {v})"), "f11:" + k
            if pat == "b f (oh ow) -> b f oh ow" and k == "t3" and set(kw) == {"oh", "ow"}:
                oh, koh = self.ex(kw["oh"], env)
                ow, kow = self.ex(kw["ow"], env)
                if koh == "nat" and kow == "nat":
                    return f"(← rearrange_bf_ohow {v} {oh} {ow})", "t4"
            if pat == "b (c kh kw) l ... -> b (...) c kh kw l" and k == "tensor" and set(kw) == {"c", "kh", "kw"}:
                a = [self.ex(kw[x], env) for x in ("c", "kh", "kw")]
                if all(kk == "nat" for _, kk in a):
                    return f"(← rearrange_presyn_conv {v} {' '.join(t for t, _ in a)})", "tensor"
            if pat in REARRANGE and not kw:
                for base, (fn, monadic, rk) in REARRANGE[pat].items():
                    arg = self.opt_arg(v, k, base) or self.view_arg(v, k, base)
                    if arg is not None:
                        return (f"(← {fn} {arg})" if monadic else f"({fn} {arg})"), rk
            self.err(n, f"einops pattern {pat!r} on kind {k} is not in the vocabulary")
        if ftxt == "ein.einsum" and len(n.args) == 3 and not n.keywords and isinstance(n.args[2], ast.Constant) \
                and n.args[2].value in EINSUM:
            (k1, k2), fn, rk = EINSUM[n.args[2].value]
            a, ka = self.ex(n.args[0], env)
            b, kb = self.ex(n.args[1], env)
            a2 = self.view_arg(a, ka, k1)
            b2 = self.view_arg(b, kb, k2)
            if a2 is not None and b2 is not None:
                return f"(← {fn} {a2} {b2})", rk
            self.err(n, f"einsum {n.args[2].value!r} on kinds {ka}, {kb}")
        # ---- torch
        if ftxt == "F.linear" and len(n.args) == 3 and not n.keywords:
            a = [self.ex(x, env) for x in n.args]
            if [k for _, k in a] == ["mat", "mat", "optvec"]:
                return f"(← F_linear {a[0][0]} {a[1][0]} {a[2][0]})", "mat"
        if ftxt == "torch.matmul" and len(n.args) == 2 and not n.keywords:
            a = [self.ex(x, env) for x in n.args]
            if [k for _, k in a] == ["mat", "t3"]:
                return f"(← torch_matmul_m_t3 {a[0][0]} {a[1][0]})", "t3"
        if ftxt == "torch.zeros_like" and len(n.args) == 1 and not n.keywords:
            v, k = self.ex(n.args[0], env)
            if k in ("mat", "vec", "t4"):
                return f"(zeros_like_{k} {v})", k
        if (ftxt == "torch.ones_like" and len(n.args) == 1 and not n.keywords) or \
                (ftxt == "ones" and len(n.args) == 1 and [k.arg for k in n.keywords] == ["dtype"]
                 and self.ex(n.keywords[0].value, env)[1] == "dtype"):
            v, k = self.ex(n.args[0], env)
            if k == "t3":
                return f"(ones_like_t3 {v})", "t3"
        if ftxt == "torch.eye" and len(n.args) == 1 and not n.keywords:
            v, k = self.ex(n.args[0], env)
            if k == "nat":
                return f"(torch_eye {v})", "mat"
        if ftxt == "torch.zeros" and len(n.args) == 2 and not n.keywords:
            a = [self.ex(x, env) for x in n.args]
            if [k for _, k in a] == ["nat", "nat"]:
                return f"(torch_zeros2 {a[0][0]} {a[1][0]})", "mat"
        if ftxt == "torch.rand" and self.spec.get("site") and "rand" in env and not n.keywords and \
                [ast.unparse(x) for x in n.args] == ["size", "size"]:
            return env["rand"]
        if ftxt == "torch.is_floating_point" and len(n.args) == 1 and not n.keywords and any(c == "fp" for c, _ in self.ctx):
            v, k = self.ex(n.args[0], env)
            if k in ("t3", "t4"):
                return "fp", "bool"
        if ftxt == "F.unfold" and len(n.args) == 2:
            v, k = self.ex(n.args[0], env)
            ker, kk = self.ex(n.args[1], env)
            kw = self.pair_kw(n, ["dilation", "padding", "stride"], env)
            if k == "t4" and kk == "pair" and kw:
                return f"(← F_unfold {v} {ker} {' '.join(kw)})", "t3"
        if ftxt == "F.fold" and len(n.args) == 3 and isinstance(n.args[1], ast.Tuple) and len(n.args[1].elts) == 2:
            v, k = self.ex(n.args[0], env)
            hw = [self.ex(x, env) for x in n.args[1].elts]
            ker, kk = self.ex(n.args[2], env)
            kw = self.pair_kw(n, ["dilation", "padding", "stride"], env)
            if k == "t3" and kk == "pair" and kw and all(q == "nat" for _, q in hw):
                return f"(← F_fold {v} ({hw[0][0]}, {hw[1][0]}) {ker} {' '.join(kw)})", "t4"
        if isinstance(f, ast.Attribute) and f.attr == "to" and not n.args and [k.arg for k in n.keywords] == ["dtype"]:
            v, k = self.ex(f.value, env)
            if self.ex(n.keywords[0].value, env)[1] == "dtype" and k in ("t3", "t4"):
                return v, k                               # dtypes are not represented
        if isinstance(f, ast.Attribute) and f.attr == "view" and n.args and not n.keywords and ast.unparse(n.args[0]) == "-1" \
                and len(n.args) == 2 and isinstance(n.args[1], ast.Starred):
            v, k = self.ex(f.value, env)
            s, ks = self.ex(n.args[1].value, env)
            if k == "mat" and ks == "shape":
                return f"(← view_batched {v} {s})", "tensor"
        if isinstance(f, ast.Attribute) and f.attr == "expand" and not n.keywords:
            v, k = self.ex(f.value, env)
            a = [ast.unparse(x) for x in n.args]
            if k == "t3" and len(a) == 3 and a[1:] == ["-1", "-1"]:
                b, kb = self.ex(n.args[0], env)
                if kb == "nat":
                    return f"(← expand3 {v} {b})", "t3"
            if k == "t4" and len(a) == 4 and a[1] == "-1" and a[3] == "-1":
                b, kb = self.ex(n.args[0], env)
                l, kl = self.ex(n.args[2], env)
                if kb == "nat" and kl == "nat":
                    return f"(← expand4 {v} {b} {l})", "t4"
        self.err(n, "unsupported call")

    def world_sig(self, dcls, attr) -> dict:
        (fd,) = [f for f in self.world.defs(dcls, attr) if not f.decorator_list]
        a = fd.args
        pos = [x.arg for x in a.posonlyargs + a.args][1:]
        return {"pos": pos, "kwonly": [x.arg for x in a.kwonlyargs], "vararg": a.vararg.arg if a.vararg else None}

    # ------------------------------------------------------------------ statements
    def truth(self, test, env) -> str:
        v, k = self.ex(test, env)
        if k == "bool":
            return v
        if k == "optscalar":
            return f"(truthy nz {v})"
        self.err(test, f"truth value of kind {k}")

    def finish(self, node, v: str, k: str, d) -> str:
        """`return v`"""
        I = self.ind(d)
        if k.startswith("call:"):
            if k[5:] != self.spec["ret"]:
                self.err(node, f"returns kind {k[5:]}, expected {self.spec['ret']}")
            return f"{I}pure {v}\n"
        v = self.coerce(node, v, k, self.spec["ret"])
        return f"{I}pure (self, {v})\n" if self.spec["mut"] else f"{I}pure {v}\n"

    def fall_off(self, env, alias, d) -> str:
        """the method ends without `return`: `None`"""
        I = self.ind(d)
        ret = self.spec["ret"]
        if ret == "unit":
            return f"{I}pure (self, ())\n" if self.spec["mut"] else f"{I}pure ()\n"
        if ret.startswith("opt"):
            return f"{I}pure (self, none)\n" if self.spec["mut"] else f"{I}pure none\n"
        self.err(self.fdef, "falls off the end without returning")

    def block(self, stmts, env, alias, d, cont) -> str:
        if not stmts:
            return cont(env, alias, d)
        s, rest = stmts[0], stmts[1:]
        I = self.ind(d)
        nxt = lambda e, a, dd: self.block(rest, e, a, dd, cont)   # noqa: E731
        if isinstance(s, ast.Expr) and isinstance(s.value, ast.Constant) and isinstance(s.value.value, str):
            return nxt(env, alias, d)
        if isinstance(s, ast.Raise):
            exc = s.exc.func.id if isinstance(s.exc, ast.Call) and isinstance(s.exc.func, ast.Name) else None
            if exc not in progtx.ERRS:
                self.err(s, "unsupported exception")
            return f"{I}throw Err.{exc}\n"
        if isinstance(s, ast.Return):
            if s.value is None:
                return self.fall_off(env, alias, d)
            if isinstance(s.value, ast.IfExp):
                e = s.value
                return self.branch(e.test, [ast.Return(value=e.body)], [ast.Return(value=e.orelse)], env, alias, d, cont)
            v, k = self.ex(s.value, env)
            return self.finish(s, v, k, d)
        if isinstance(s, ast.Expr) and isinstance(s.value, ast.Call):
            return self.call_stmt(s.value, env, alias, d, nxt)
        if isinstance(s, ast.Assign) and len(s.targets) == 1:
            return self.assign(s, env, alias, d, nxt)
        if isinstance(s, ast.If):
            return self.if_stmt(s, rest, env, alias, d, cont)
        self.err(s, "unsupported statement")

    def drop_refinements(self, env):
        return {k: v for k, v in env.items() if not k.startswith("self.")}

    def call_stmt(self, c: ast.Call, env, alias, d, nxt) -> str:
        I = self.ind(d)
        ftxt = ast.unparse(c.func)
        # self.register_parameter("x_", nn.Parameter(x, requires_grad))
        if ftxt == "self.register_parameter" and len(c.args) == 2 and not c.keywords and isinstance(c.args[0], ast.Constant) \
                and isinstance(c.args[1], ast.Call) and ast.unparse(c.args[1].func) == "nn.Parameter" \
                and len(c.args[1].args) == 2 and not c.args[1].keywords and ast.unparse(c.args[1].args[1]) in DROPPED_PARAMS:
            fld = c.args[0].value
            if fld not in self.R["fields"] or not self.spec["mut"]:
                self.err(c, "unknown parameter")
            v, k = self.ex(c.args[1].args[0], env)
            fk = self.R["fields"][fld]
            return f"{I}let self := {{ self with {fld} := {self.coerce(c, v, k, fk)} }}\n" + nxt(self.drop_refinements(env), alias, d)
        v, k = self.ex(c, env)
        if k.startswith("call:"):
            return f"{I}let self := {v}.1\n" + nxt(self.drop_refinements(env), alias, d)
        self.err(c, "unsupported call statement")

    def assign(self, s: ast.Assign, env, alias, d, nxt) -> str:
        I = self.ind(d)
        t = s.targets[0]
        if isinstance(t, ast.Name):
            val = s.value
            # _ = argtest.instance("self", self, nn.Module): the receiver classes are Modules
            if t.id == "_" and isinstance(val, ast.Call) and ast.unparse(val.func) == "argtest.instance" \
                    and [ast.unparse(a) for a in val.args[1:]] == ["self", "nn.Module"]:
                return nxt(env, alias, d)
            # res = self.synapse(*(self.like_synaptic(inp) for inp in inputs), **kwargs)
            if isinstance(val, ast.Call) and isinstance(val.func, ast.Attribute) and self.is_self(val.func.value) \
                    and self.is_property(self.recv, val.func.attr):
                syn, ks = self.ex(val.func, env)
                if ks != "syn" or not self.spec["mut"]:
                    self.err(s, f"call of a value of kind {ks}")
                if len(val.args) != 1 or not isinstance(val.args[0], ast.Starred) or \
                        [(k.arg, ast.unparse(k.value)) for k in val.keywords] != [(None, self.kwarg)]:
                    self.err(s, "unsupported arguments of the synapse call")
                g = val.args[0].value
                if not (isinstance(g, ast.GeneratorExp) and len(g.generators) == 1 and not g.generators[0].ifs
                        and isinstance(g.generators[0].target, ast.Name)):
                    self.err(s, "unsupported arguments of the synapse call")
                it, kit = self.ex(g.generators[0].iter, env)
                if not kit.startswith("list:"):
                    self.err(s, f"generator over kind {kit}")
                x = g.generators[0].target.id
                env_g = dict(env)
                env_g[x] = (lname(x), kit[5:])
                e, ke = self.ex(g.elt, env_g)
                if ke != self.R["syninp"] or not (e.startswith("(← ") and e.endswith(")")):
                    self.err(s, f"synapse input of kind {ke}")
                self.fresh += 1
                r = f"r{self.fresh}_"
                env = dict(self.drop_refinements(env))
                env[t.id] = (lname(t.id), self.R["cur"])
                return (f"{I}let {r} ← Y.forward {syn} (← {it}.mapM (fun {lname(x)} => {e[3:-1]}))\n"
                        f"{I}let self := {{ self with synapse_ := {r}.1 }}\n"
                        f"{I}let {lname(t.id)} := {r}.2\n") + nxt(env, alias, d)
            v, k = self.ex(val, env)
            if k.startswith("call:") or k in ("none", "dtype", "synshape"):
                self.err(s, f"local bound to a value of kind {k}")
            env = dict(env)
            env[t.id] = (lname(t.id), k)
            return f"{I}let {lname(t.id)} := {v}\n" + nxt(env, alias, d)
        # self.<attr>_.data = value
        if isinstance(t, ast.Attribute) and t.attr == "data" and isinstance(t.value, ast.Attribute) and self.is_self(t.value.value):
            fld = t.value.attr
            fk = self.R["fields"].get(fld)
            if fk is None or not self.spec["mut"] or self.world.lookup(self.where(s), self.recv, fld)[0] is not None:
                self.err(s, "assignment to an unknown attribute")
            v, k = self.ex(s.value, env)
            if fk.startswith("opt"):
                if f"self.{fld}" not in env:
                    self.err(s, f"`{fld}` may not exist here (no `hasattr` guard)")
                new = f"some {self.coerce(s, v, k, fk[3:])}"
            else:
                new = self.coerce(s, v, k, fk)
            env = dict(env)
            if f"self.{fld}" in env:
                env[f"self.{fld}"] = (v, k)
            return f"{I}let self := {{ self with {fld} := {new} }}\n" + nxt(env, alias, d)
        self.err(s, "unsupported assignment")

    def if_stmt(self, s: ast.If, rest, env, alias, d, cont) -> str:
        body, orelse = list(s.body), list(s.orelse)
        if rest and self.terminates(body) and not self.terminates(orelse):
            orelse, rest = orelse + rest, []           # the statements after the `if` are its else-continuation
        elif rest and orelse and self.terminates(orelse) and not self.terminates(body):
            body, rest = body + rest, []
        if rest and not (self.terminates(body) and self.terminates(orelse)):
            return self.join_if(s, body, orelse, rest, env, alias, d, cont)
        return self.branch(s.test, body, orelse, env, alias, d, cont)

    def branch(self, test, body, orelse, env, alias, d, cont) -> str:
        I = self.ind(d)
        # hasattr(self, "<attr>_") refines an optional attribute; `x is not None` refines an optional parameter
        ref = None
        if isinstance(test, ast.Call) and ast.unparse(test.func) == "hasattr" and len(test.args) == 2 \
                and self.is_self(test.args[0]) and isinstance(test.args[1], ast.Constant):
            fld = test.args[1].value
            fk = self.R["fields"].get(fld, "")
            if not fk.startswith("opt") or self.world.lookup(self.where(test), self.recv, fld)[0] is not None:
                self.err(test, "hasattr of something that is not an optional attribute")
            ref = (f"self.{fld}", f"self.{fld}", lname(fld), fk[3:], body, orelse)
        if isinstance(test, ast.Compare) and len(test.ops) == 1 and isinstance(test.ops[0], (ast.Is, ast.IsNot)) \
                and isinstance(test.left, ast.Name) and ast.unparse(test.comparators[0]) == "None" \
                and env.get(test.left.id, ("", ""))[1].startswith("opt"):
            nm = test.left.id
            some_b, none_b = (body, orelse) if isinstance(test.ops[0], ast.IsNot) else (orelse, body)
            ref = (nm, env[nm][0], env[nm][0], env[nm][1][3:], some_b, none_b)
        if ref is not None:
            slot, scrut, local, base, some_b, none_b = ref
            env_s = dict(env)
            env_s[slot] = (local, base)
            return (f"{I}match {scrut} with\n{I}| some {local} =>\n" + self.block(some_b, env_s, alias, d + 1, cont)
                    + f"{I}| none =>\n" + self.block(none_b, env, alias, d + 1, cont))
        c = self.truth(test, env)
        return (f"{I}if {c} then\n" + self.block(body, env, alias, d + 1, cont)
                + f"{I}else\n" + self.block(orelse, env, alias, d + 1, cont))

    def join_if(self, s, body, orelse, rest, env, alias, d, cont) -> str:
        """a conditional that falls through into `rest`: its branches return (the state and) the locals they bind"""
        I = self.ind(d)
        leaves = []
        fresh0 = self.fresh

        def probe(e, a, dd):
            leaves.append(e)
            return ""
        self.branch(s.test, body, orelse, env, alias, d + 1, probe)
        self.fresh = fresh0
        names = [x for x in self.assigned(body + orelse) if all(x in e for e in leaves)]
        kinds = {x: self.unify(s, [e[x][1] for e in leaves]) for x in names}
        mut = self.spec["mut"]
        if not names and not mut:
            self.err(s, "conditional without effect")

        def tup(texts):
            xs = (["self"] if mut else []) + texts
            return xs[0] if len(xs) == 1 else "(" + ", ".join(xs) + ")"

        def leaf(e, a, dd):
            return f"{self.ind(dd)}pure {tup([self.coerce(s, e[x][0], e[x][1], kinds[x]) for x in names])}\n"
        inner = self.branch(s.test, body, orelse, env, alias, d + 1, leaf)
        env2 = dict(self.drop_refinements(env) if mut else env)
        for x in names:
            env2[x] = (lname(x), kinds[x])
        return (f"{I}let {tup([lname(x) for x in names])} ← (do\n{inner}{I}  : Except Err _)\n"
                + self.block(rest, env2, alias, d, cont))

    # ------------------------------------------------------------------ whole method
    def emit(self) -> str:
        a = self.fdef.args
        spec = self.spec
        allp = [x.arg for x in a.posonlyargs + a.args + a.kwonlyargs][1:]
        self.kwarg = a.kwarg.arg if a.kwarg else None
        params = [p for p in allp if p not in DROPPED_PARAMS] + ([a.vararg.arg] if a.vararg else [])
        if params != list(spec["params"]):
            raise TranslateError(self.where(self.fdef), f"signature changed: {params} (expected {list(spec['params'])})")
        env = {p: (lname(p), k) for p, k in spec["params"].items()}
        ptxt = "".join(f" ({lname(p)} : {ty(k)})" for p, k in spec["params"].items())
        body = self.block(list(self.fdef.body), env, {}, 1, self.fall_off)
        ret = ty(spec["ret"])
        rty = f"{self.STATE_TY} × {ret}" if spec["mut"] else ret
        inst = INST + (" " + EXTRA_INST[self.py] if self.py in EXTRA_INST else "")
        ctx = "".join(f" ({n} : {t})" for n, t in self.ctx)
        return f"def {self.key} {inst}{ctx} (self : {self.STATE_TY}){ptxt} : Except Err ({rty}) := do\n" + body


class SiteTx(ConnTx):
    """an expression of `LinearLateral.__init__` as a function of the constructor's locals"""

    def __init__(self, world, key, expr: ast.expr):
        fd = next(f for f in world.defs("LinearLateral", "__init__"))
        super().__init__(world, key, "LinearLateral", "LinearLateral", "__init__", None, fd, site=SITES[key])
        self.expr = expr

    def emit(self) -> str:
        spec = self.spec
        env = {p: (lname(p), k) for p, k in spec["params"].items()}
        if "mask" in env:
            env["self.mask"] = env.pop("mask")
        self.kwarg = None
        ptxt = "".join(f" ({lname(p)} : {ty(k)})" for p, k in spec["params"].items())
        body = self.block([ast.Return(value=self.expr)], env, {}, 1, self.fall_off)
        return f"def {self.key} {SITE_INST}{ptxt} : Except Err ({ty(spec['ret'])}) := do\n" + body


def lateral_sites(world: World) -> dict:
    """the `mask` buffer and the `weight=` / `delay=` arguments of the mixin constructor call in `LinearLateral.__init__`"""
    where = f"{FILES['linear']}::LinearLateral.__init__"
    (fd,) = world.defs("LinearLateral", "__init__")
    src = world.classes["LinearLateral"][2]
    out = {}
    regs = [s.value for s in fd.body if isinstance(s, ast.Expr) and isinstance(s.value, ast.Call)
            and ast.unparse(s.value.func) == "self.register_buffer" and s.value.args
            and isinstance(s.value.args[0], ast.Constant) and s.value.args[0].value == "mask"]
    ctor = [s.value for s in fd.body if isinstance(s, ast.Expr) and isinstance(s.value, ast.Call)
            and ast.unparse(s.value.func) == "WeightBiasDelayMixin.__init__"]
    if len(regs) != 1 or len(regs[0].args) != 2 or len(ctor) != 1:
        raise TranslateError(where, "register_buffer('mask', …) / WeightBiasDelayMixin.__init__(…) not found exactly once")
    if fd.body.index(next(s for s in fd.body if isinstance(s, ast.Expr) and s.value is regs[0])) > \
            fd.body.index(next(s for s in fd.body if isinstance(s, ast.Expr) and s.value is ctor[0])):
        raise TranslateError(where, "the mask is registered after the parameters are created")
    kw = {k.arg: k.value for k in ctor[0].keywords}
    if [ast.unparse(a) for a in ctor[0].args] != ["self"] or set(kw) != {"weight", "bias", "delay", "requires_grad"}:
        raise TranslateError(where, "unsupported arguments of WeightBiasDelayMixin.__init__")
    for key, expr in (("LinearLateral_init_mask", regs[0].args[1]), ("LinearLateral_init_weight", kw["weight"]),
                      ("LinearLateral_init_delay", kw["delay"])):
        text = SiteTx(world, key, expr).emit()
        seg = ast.get_source_segment(src, expr) or ""
        sha = hashlib.sha256(seg.encode()).hexdigest()[:16]
        doc = f"/-- from `{FILES['linear']}` :: site `LinearLateral.__init__` :: `{ast.unparse(expr)[:90]}` (sha256 of source segment {sha}) -/\n"
        out[key] = (doc + text, sha)
    return out


def regenerate() -> dict:
    """regenerates Gen/ConnProg.lean; same return shape as `progtx.regenerate_class`"""
    world = World()
    for recv, meth, dec in ROOTS:
        where = f"{recv}.{meth}"
        if "." in meth:                                  # an explicitly named base-class method run on `recv`
            start, meth = meth.split(".")
        else:
            start = recv
        dcls, _ = world.lookup(where, start, meth)
        if dcls is None:
            raise TranslateError(where, "not defined along the base classes")
        world.request(where, recv, dcls, meth, dec)
    sites = lateral_sites(world)
    text = HEADER
    info = {}
    for key in world.order:
        t, sha, spec = world.done[key]
        text += "\n" + t
        info[key] = sha
        ConnTx.METHODS[key] = spec
    for key, (t, sha) in sites.items():
        text += "\n" + t
        info[key] = sha
    text += f"\nend {NAMESPACE}\n"
    p = GEN / ConnTx.OUT
    changed = not p.exists() or p.read_text() != text
    if changed:
        p.write_text(text)
    return {"functions": info, "rewritten": changed}


if __name__ == "__main__":
    print(json.dumps(regenerate(), indent=1))
