"""Statement-level translator, configuration plumbing (DESIGN §12.5, property C14): whole bodies of
* `inferno/neural/mixins.py`: `BatchMixin.__init__` / `add_batched` / `batchsz` (getter, setter),
  `DelayedMixin.__init__` / `add_delayed` / `dt` / `delay` (getters, setters);
* `inferno/observe/reducers/base.py`: `RecordReducer.__init__` / `add_record` / `dt` / `duration` / `inplace`
  (getters, setters);
* `inferno/neural/base.py`: `InfernoNeuron.batchsz`, `InfernoSynapse.dt` / `delay` / `inplace`,
  `Connection.synapse` / `batchsz` / `dt` (getters, setters), `Connection.delayedby`
→ Lean programs over the worlds `Obj τ` / `ConnW τ` (`Gen/ConfigPrelude.lean`), regenerated on every run as
`Gen/ConfigProg.lean` (core Lean only).

What is kept from the source, statement by statement and in SOURCE ORDER: the argument validation
(`argtest.gt` / `argtest.gte` with the cast and the exception class), every assignment to a private field (WHICH
field: `self.__x` inside class `K` is the attribute `_K__x`), the `value != self.__field` tests, the loops over the
`__constrained` / `__records` sets with their bodies (`getattr(self, name).dt = v`, `.duration = v`,
`.inclusive = v`, `.reconstrain(dim, size)` with the dimension and the value expression), the position of the
field update after the loop, the `hasattr` / `isinstance` cascade of `add_batched` / `add_delayed` / `add_record`
with its exception classes AND the attribute accesses made while building the error message
(`type(getattr(self, a).__name__)` evaluates `.__name__` on the attribute object), `set.add`, the forwarding
`<Class>.<prop>.fget(self)` / `.fset(self, value)` (resolved along the real C3 MRO of the classes defined in the
three files), `self.clear()`, `self.synapse_ = value`, `self.synapse.<prop>` / `self.synapse.<prop> = value`,
`if self.delay is not None: return self.synapse.delay`.

Not re-translated: methods of attribute objects (`RecordTensor.dt` … are `Gen/RecordProg.lean`, reached through
the prelude's class dispatch `Attr_set_dt` …); `self.clear()` of the abstract `InfernoSynapse` / `InfernoNeuron`
is the parameter `C.clear`.  Dropped (listed in `DROPPED_STMTS`): `Reducer.__init__(self)`.
World assumptions (stated in the prelude / the glue file): the object behind `Connection.synapse` is an
`InfernoSynapse` (`DYNAMIC`); `Connection.delay` (abstract) is read as the flag `delay_present`.

Exceptions keep Python's semantics: the programs live in `Except (Err × state) _`.  `Props/C14GlueProg.lean`
proves the generated programs equal to the operations of `Model/Config.lean`.  Anything outside this sub-language
raises `TranslateError` naming the node.  Several files and classes are translated, so this module has its own
`regenerate()` (same return shape as `progtx.regenerate_class`); methods are located by class / method name /
decorator, never by line number.
"""
from __future__ import annotations

import ast
import hashlib
import json

import progtx
from progtx import Tx
from translate import GEN, REPO, TranslateError, lname

MIX = "inferno/neural/mixins.py"
RED = "inferno/observe/reducers/base.py"
NEU = "inferno/neural/base.py"
SOURCES = [MIX, RED, NEU]

# kinds: int bool time names str unit opttime attr modref module optparam none
LEAN_TY = {"int": "Int", "bool": "Bool", "time": "τ", "names": "List String", "str": "String", "unit": "Unit",
           "opttime": "Option τ", "modref": "String", "module": "Obj τ"}
STATE_TY = {"obj": "Obj τ", "conn": "ConnW τ"}

# functions, in emission order (callees first).  key = name of the generated definition; `decorator` picks a
# property getter ("property") / setter ("<name>.setter"); `state` = world the method runs in; `vararg` = (name,
# kind) of a translated `*name` parameter
METHODS = {
    "BatchMixin___init__": {"src": MIX, "cls": "BatchMixin", "py": "__init__", "params": {"batch_size": "int"}, "ret": "unit"},
    "BatchMixin_add_batched": {"src": MIX, "cls": "BatchMixin", "py": "add_batched", "params": {}, "vararg": ("attr", "names"), "ret": "unit"},
    "BatchMixin_batchsz": {"src": MIX, "cls": "BatchMixin", "py": "batchsz", "decorator": "property", "params": {}, "ret": "int"},
    "BatchMixin_set_batchsz": {"src": MIX, "cls": "BatchMixin", "py": "batchsz", "decorator": "batchsz.setter", "params": {"value": "int"}, "ret": "unit"},
    "DelayedMixin___init__": {"src": MIX, "cls": "DelayedMixin", "py": "__init__", "params": {"step_time": "time", "delay": "time"}, "ret": "unit"},
    "DelayedMixin_add_delayed": {"src": MIX, "cls": "DelayedMixin", "py": "add_delayed", "params": {}, "vararg": ("attr", "names"), "ret": "unit"},
    "DelayedMixin_dt": {"src": MIX, "cls": "DelayedMixin", "py": "dt", "decorator": "property", "params": {}, "ret": "time"},
    "DelayedMixin_set_dt": {"src": MIX, "cls": "DelayedMixin", "py": "dt", "decorator": "dt.setter", "params": {"value": "time"}, "ret": "unit"},
    "DelayedMixin_delay": {"src": MIX, "cls": "DelayedMixin", "py": "delay", "decorator": "property", "params": {}, "ret": "time"},
    "DelayedMixin_set_delay": {"src": MIX, "cls": "DelayedMixin", "py": "delay", "decorator": "delay.setter", "params": {"value": "time"}, "ret": "unit"},
    "RecordReducer___init__": {"src": RED, "cls": "RecordReducer", "py": "__init__",
                               "params": {"step_time": "time", "duration": "time", "inclusive": "bool", "inplace": "bool"}, "ret": "unit"},
    "RecordReducer_add_record": {"src": RED, "cls": "RecordReducer", "py": "add_record", "params": {}, "vararg": ("attr", "names"), "ret": "unit"},
    "RecordReducer_dt": {"src": RED, "cls": "RecordReducer", "py": "dt", "decorator": "property", "params": {}, "ret": "time"},
    "RecordReducer_set_dt": {"src": RED, "cls": "RecordReducer", "py": "dt", "decorator": "dt.setter", "params": {"value": "time"}, "ret": "unit"},
    "RecordReducer_duration": {"src": RED, "cls": "RecordReducer", "py": "duration", "decorator": "property", "params": {}, "ret": "time"},
    "RecordReducer_set_duration": {"src": RED, "cls": "RecordReducer", "py": "duration", "decorator": "duration.setter", "params": {"value": "time"}, "ret": "unit"},
    "RecordReducer_inplace": {"src": RED, "cls": "RecordReducer", "py": "inplace", "decorator": "property", "params": {}, "ret": "bool"},
    "RecordReducer_set_inplace": {"src": RED, "cls": "RecordReducer", "py": "inplace", "decorator": "inplace.setter", "params": {"value": "bool"}, "ret": "unit"},
    "InfernoNeuron_batchsz": {"src": NEU, "cls": "InfernoNeuron", "py": "batchsz", "decorator": "property", "params": {}, "ret": "int"},
    "InfernoNeuron_set_batchsz": {"src": NEU, "cls": "InfernoNeuron", "py": "batchsz", "decorator": "batchsz.setter", "params": {"value": "int"}, "ret": "unit"},
    "InfernoSynapse_dt": {"src": NEU, "cls": "InfernoSynapse", "py": "dt", "decorator": "property", "params": {}, "ret": "time"},
    "InfernoSynapse_set_dt": {"src": NEU, "cls": "InfernoSynapse", "py": "dt", "decorator": "dt.setter", "params": {"value": "time"}, "ret": "unit"},
    "InfernoSynapse_delay": {"src": NEU, "cls": "InfernoSynapse", "py": "delay", "decorator": "property", "params": {}, "ret": "time"},
    "InfernoSynapse_set_delay": {"src": NEU, "cls": "InfernoSynapse", "py": "delay", "decorator": "delay.setter", "params": {"value": "time"}, "ret": "unit"},
    "InfernoSynapse_inplace": {"src": NEU, "cls": "InfernoSynapse", "py": "inplace", "decorator": "property", "params": {}, "ret": "bool"},
    "InfernoSynapse_set_inplace": {"src": NEU, "cls": "InfernoSynapse", "py": "inplace", "decorator": "inplace.setter", "params": {"value": "bool"}, "ret": "unit"},
    "Connection_synapse": {"src": NEU, "cls": "Connection", "py": "synapse", "decorator": "property", "state": "conn", "params": {}, "ret": "modref"},
    "Connection_set_synapse": {"src": NEU, "cls": "Connection", "py": "synapse", "decorator": "synapse.setter", "state": "conn", "params": {"value": "module"}, "ret": "unit"},
    "Connection_batchsz": {"src": NEU, "cls": "Connection", "py": "batchsz", "decorator": "property", "state": "conn", "params": {}, "ret": "int"},
    "Connection_set_batchsz": {"src": NEU, "cls": "Connection", "py": "batchsz", "decorator": "batchsz.setter", "state": "conn", "params": {"value": "int"}, "ret": "unit"},
    "Connection_dt": {"src": NEU, "cls": "Connection", "py": "dt", "decorator": "property", "state": "conn", "params": {}, "ret": "time"},
    "Connection_set_dt": {"src": NEU, "cls": "Connection", "py": "dt", "decorator": "dt.setter", "state": "conn", "params": {"value": "time"}, "ret": "unit"},
    "Connection_delayedby": {"src": NEU, "cls": "Connection", "py": "delayedby", "decorator": "property", "state": "conn", "params": {}, "ret": "opttime"},
}

# private fields: class -> `self.__x` -> (field of `Obj`, kind)
FIELDS = {
    "BatchMixin": {"__batch_size": ("BatchMixin__batch_size", "int"), "__constrained": ("BatchMixin__constrained", "names")},
    "DelayedMixin": {"__step_time": ("DelayedMixin__step_time", "time"), "__delay": ("DelayedMixin__delay", "time"),
                     "__constrained": ("DelayedMixin__constrained", "names")},
    "InfernoSynapse": {"__inplace": ("InfernoSynapse__inplace", "bool")},
    "RecordReducer": {"__step_time": ("RecordReducer__step_time", "time"), "__duration": ("RecordReducer__duration", "time"),
                      "__inclusive": ("RecordReducer__inclusive", "bool"), "__inplace": ("RecordReducer__inplace", "bool"),
                      "__records": ("RecordReducer__records", "names")},
}
# the class of the object a `modref`-valued getter returns (the declared type `Synapse` is abstract: every shipped
# synapse is an `InfernoSynapse`)
DYNAMIC = {"Connection_synapse": "InfernoSynapse"}
# abstract read-only attributes: (class, attr) -> (text, kind)
CONSTS = {("Connection", "delay"): ("self.delay_present", "optparam")}
# methods supplied by the concrete subclass: (class, method) -> field of `Ctx`
ABSTRACT = {("InfernoSynapse", "clear"): "clear", ("InfernoNeuron", "clear"): "clear"}
# statements that are not modelled, by (class, method): exact source text
DROPPED_STMTS = {("RecordReducer", "__init__"): ["Reducer.__init__(self)"]}
# property setters of attribute objects (class dispatch in the prelude) and their value kinds
ATTR_SETTERS = {"dt": ("Attr_set_dt", "time"), "duration": ("Attr_set_duration", "time"), "inclusive": ("Attr_set_inclusive", "bool")}
ISINSTANCE = {"ShapedTensor": "isShapedTensor", "RecordTensor": "isRecordTensor"}

HEADER = """import InfernoVerif.Gen.ConfigPrelude
/-! GENERATED by harness/progtx_config.py from inferno/neural/mixins.py (`BatchMixin`, `DelayedMixin`),
inferno/observe/reducers/base.py (`RecordReducer`) and inferno/neural/base.py (`InfernoNeuron`, `InfernoSynapse`,
`Connection`) — do not edit.
Whole bodies as programs over the worlds `Obj τ` / `ConnW τ`; an exception carries the state at the raise.
Vocabulary: Gen/ConfigPrelude.lean; the setters of attribute objects are the programs of Gen/RecordProg.lean. -/
set_option linter.unusedVariables false
namespace InfernoVerif.Gen.ConfigProg
open InfernoVerif.Ring InfernoVerif.Gen.ConfigPrelude

variable {τ : Type} [DecidableEq τ]
"""


def linearise(classes: dict) -> dict:
    """real C3 MROs (names) of the classes defined in the translated files: dummy classes with the same bases are
    built with `type`; a base that is not defined in these files is a fresh subclass of `object`"""
    built: dict = {}
    unknown: dict = {}

    def base_name(b):
        return b.id if isinstance(b, ast.Name) else ast.unparse(b)

    def build(name, stack=()):
        if name in built:
            return built[name]
        if name in stack:
            raise TranslateError("classes", f"cyclic bases at {name}")
        if name not in classes:
            if name not in unknown:
                unknown[name] = type(name, (), {})
            return unknown[name]
        bases = tuple(build(base_name(b), stack + (name,)) for b in classes[name].bases)
        try:
            built[name] = type(name, bases, {})
        except TypeError as e:
            raise TranslateError("classes", f"no consistent MRO for {name}: {e}")
        return built[name]

    return {n: [c.__name__ for c in build(n).__mro__ if c is not object] for n in classes}


def decorators(f: ast.FunctionDef) -> list[str]:
    return [ast.unparse(d) for d in f.decorator_list]


class CfgTx(Tx):
    SRC = MIX
    CLS = "BatchMixin"            # per instance: class of the method being translated
    METHODS = METHODS
    LEAN_TY = LEAN_TY
    STATE_TY = "Obj τ"
    DROPPED_PARAMS: set = set()
    OUT = "ConfigProg.lean"
    NAMESPACE = "InfernoVerif.Gen.ConfigProg"
    HEADER = HEADER
    CLASSES: dict = {}            # filled by `regenerate`: class name -> ast.ClassDef (all files)
    MRO: dict = {}                # class name -> names along the C3 linearisation

    def __init__(self, name: str, fdef: ast.FunctionDef, sigs: dict):
        super().__init__(name, fdef, sigs)
        self.SRC = self.spec["src"]
        self.CLS = self.spec["cls"]
        self.state = self.spec.get("state", "obj")
        self.STATE_TY = STATE_TY[self.state]

    def err(self, node, msg):
        where = f"{self.SRC}::{self.CLS}.{self.spec['py']}:{getattr(node, 'lineno', '?')}"
        raise TranslateError(where, f"{msg}: {ast.unparse(node)[:140] if isinstance(node, ast.AST) else node}")

    @property
    def monad(self) -> str:
        return f"Except (Err × {self.STATE_TY})"

    # ------------------------------------------------------------------ name resolution
    def self_attr(self, n) -> str | None:
        if isinstance(n, ast.Attribute) and isinstance(n.value, ast.Name) and n.value.id == "self":
            return n.attr
        return None

    @staticmethod
    def is_private(attr: str) -> bool:
        return attr.startswith("__") and not attr.endswith("__")

    def field(self, node, attr: str):
        """private field `self.__x` of the class being translated -> (field, kind)"""
        f = FIELDS.get(self.CLS, {}).get(attr)
        if f is None:
            self.err(node, f"unknown private attribute of class {self.CLS}")
        return f

    def resolve(self, node, start: str, attr: str, setter: bool) -> str:
        """generated definition that `<object of class start>.<attr>` (read: getter, assigned: setter) refers to: the
        first class along the MRO that defines `attr` must define it as a translated property"""
        if start not in self.MRO:
            self.err(node, f"class {start} is not defined in the translated files")
        for c in self.MRO[start]:
            if c not in self.CLASSES:
                continue                                    # a base outside the translated files (Module, ABC, …)
            defs = [f for f in self.CLASSES[c].body if isinstance(f, ast.FunctionDef) and f.name == attr]
            if not defs:
                if any(isinstance(t, ast.Name) and t.id == attr for s in self.CLASSES[c].body
                       if isinstance(s, (ast.Assign, ast.AnnAssign)) for t in (s.targets if isinstance(s, ast.Assign) else [s.target])):
                    self.err(node, f"{attr} is a class attribute of {c}")
                continue
            want = f"{attr}.setter" if setter else "property"
            if not any(want in decorators(f) for f in defs):
                self.err(node, f"{c}.{attr} has no {'setter' if setter else 'getter'}")
            for key, spec in self.METHODS.items():
                if spec["cls"] == c and spec["py"] == attr and spec.get("decorator") == want:
                    return key
            self.err(node, f"{attr} resolves to {c}.{attr} ({want}), which is not translated")
        self.err(node, f"{attr} is not defined by a class of the translated files")

    def prop_via_class(self, f):
        """`<Class>.<prop>.fget` / `.fset` -> (class, prop, "fget" | "fset") or None"""
        if isinstance(f, ast.Attribute) and f.attr in ("fget", "fset") and isinstance(f.value, ast.Attribute) \
                and isinstance(f.value.value, ast.Name) and f.value.value.id in self.CLASSES:
            return f.value.value.id, f.value.attr, f.attr
        return None

    def check_self_only(self, node, args, n):
        if len(args) != n or not (isinstance(args[0], ast.Name) and args[0].id == "self"):
            self.err(node, "unsupported arguments (expected `self` first)")

    def is_getattr_self(self, n) -> bool:
        return isinstance(n, ast.Call) and isinstance(n.func, ast.Name) and n.func.id == "getattr" and len(n.args) == 2 \
            and not n.keywords and isinstance(n.args[0], ast.Name) and n.args[0].id == "self"

    def pure_arg(self, node, env, kind) -> str:
        v, k = self.ex(node, env)
        if k != kind or "←" in v:
            self.err(node, f"argument of kind {k} (expected a pure {kind})")
        return v

    # ------------------------------------------------------------------ expressions
    def ex(self, n, env):
        a = self.self_attr(n)
        if a is not None:
            if self.is_private(a):
                if self.state != "obj":
                    self.err(n, "private attribute of a connection")
                fld, kind = self.field(n, a)
                return f"self.{fld}", kind
            if (self.CLS, a) in CONSTS:
                return CONSTS[(self.CLS, a)]
            if self.state == "conn":
                # a property of this class, or a registered submodule (`nn.Module.__getattr__`)
                if any(c in self.CLASSES and any(isinstance(f, ast.FunctionDef) and f.name == a for f in self.CLASSES[c].body)
                       for c in self.MRO[self.CLS]):
                    key = self.resolve(n, self.CLS, a, setter=False)
                    return f"(← {key} C self).2", self.METHODS[key]["ret"] + (":" + key if self.METHODS[key]["ret"] == "modref" else "")
                return f'(← raising self (Module_getattr self "{a}"))', "modref"
            key = self.resolve(n, self.CLS, a, setter=False)
            return f"(← {key} C self).2", self.METHODS[key]["ret"]
        if isinstance(n, ast.Name) and n.id == "self":
            self.err(n, "`self` used as a value")
        if isinstance(n, ast.Attribute) and not isinstance(n.value, ast.Name):
            # <modref expression>.<property>
            v, k = self.ex(n.value, env)
            if k.startswith("modref:"):
                key = self.resolve(n, DYNAMIC[k.split(":")[1]], n.attr, setter=False)
                if self.METHODS[key].get("state", "obj") != "obj":
                    self.err(n, "property of a submodule that is not an object program")
                return f"(← moduleCall self {v} (fun m_ => {key} C m_)).2", self.METHODS[key]["ret"]
            self.err(n, f"attribute of kind {k}")
        if isinstance(n, ast.BinOp):
            a_, ka = self.ex(n.left, env)
            b_, kb = self.ex(n.right, env)
            op = {ast.Add: "add", ast.Sub: "sub", ast.Mult: "mul"}.get(type(n.op))
            if ka == "time" and kb == "time" and op:
                return f"(C.{op} {a_} {b_})", "time"
            return super().ex(n, env)
        if isinstance(n, ast.Compare) and len(n.ops) == 1:
            op = n.ops[0]
            a_, ka = self.ex(n.left, env)
            b_, kb = self.ex(n.comparators[0], env)
            if isinstance(op, (ast.Eq, ast.NotEq)) and ka == kb and ka in ("time", "int", "bool"):
                return f"(decide ({a_} {'=' if isinstance(op, ast.Eq) else '≠'} {b_}))", "bool"
            if isinstance(op, (ast.Is, ast.IsNot)) and kb == "none" and ka == "optparam":
                return (f"(!{a_})" if isinstance(op, ast.Is) else a_), "bool"
            if ka == "int" and kb == "int":
                return super().ex(n, env)
            self.err(n, f"unsupported comparison on kinds {ka}, {kb}")
        if isinstance(n, ast.UnaryOp) and isinstance(n.op, ast.Not):
            v, k = self.ex(n.operand, env)
            if k == "bool":
                return f"(!{v})", "bool"
            self.err(n, f"`not` on kind {k}")
        if isinstance(n, (ast.BoolOp, ast.IfExp, ast.Subscript, ast.Lambda)):
            self.err(n, "unsupported expression")
        return super().ex(n, env)

    def call(self, n: ast.Call, env):
        f = n.func
        ftxt = ast.unparse(f)
        if ftxt in ("argtest.gt", "argtest.gte") and len(n.args) == 4 and not n.keywords:
            nm, val, lim, cast = n.args
            if isinstance(nm, ast.Constant) and isinstance(nm.value, str) and isinstance(lim, ast.Constant) \
                    and type(lim.value) is int and lim.value == 0 and isinstance(cast, ast.Name):
                v, k = self.ex(val, env)
                fn = ftxt.replace(".", "_")
                if cast.id == "float" and k == "time":
                    return f"(← raising self ({fn}_time C.T {v}))", "time"
                if cast.id == "int" and k == "int":
                    return f"(← raising self ({fn}_int {v}))", "int"
        if ftxt == "set" and not n.args and not n.keywords:
            return "set_new", "names"
        if ftxt == "bool" and len(n.args) == 1 and not n.keywords:
            v, k = self.ex(n.args[0], env)
            if k == "bool":
                return v, "bool"
        if ftxt == "hasattr" and len(n.args) == 2 and not n.keywords and ast.unparse(n.args[0]) == "self" and self.state == "obj":
            return f"(hasattr self {self.pure_arg(n.args[1], env, 'str')})", "bool"
        if self.is_getattr_self(n) and self.state == "obj":
            return f"(← raising self (getattr self {self.pure_arg(n.args[1], env, 'str')}))", "attr"
        if ftxt == "isinstance" and len(n.args) == 2 and not n.keywords and isinstance(n.args[1], ast.Name) \
                and n.args[1].id in ISINSTANCE:
            v, k = self.ex(n.args[0], env)
            if k == "attr":
                return f"({ISINSTANCE[n.args[1].id]} {v})", "bool"
        pv = self.prop_via_class(f)
        if pv is not None and pv[2] == "fget" and not n.keywords and self.state == "obj":
            self.check_self_only(n, n.args, 1)
            if pv[0] not in self.MRO[self.CLS]:
                self.err(n, f"{pv[0]} is not a base of {self.CLS}")
            key = self.resolve(n, pv[0], pv[1], setter=False)
            return f"(← {key} C self).2", self.METHODS[key]["ret"]
        self.err(n, "unsupported call")

    # ------------------------------------------------------------------ statements
    def message_effects(self, node, env, d) -> str:
        """statements for the attribute accesses made while an exception's message is built (they can raise)"""
        I = self.ind(d)
        if isinstance(node, ast.JoinedStr):
            return "".join(self.message_effects(v, env, d) for v in node.values)
        if isinstance(node, ast.FormattedValue):
            if node.format_spec is not None:
                self.err(node, "format specification in an error message")
            return self.message_effects(node.value, env, d)
        if isinstance(node, ast.Constant) and isinstance(node.value, str):
            return ""
        if isinstance(node, ast.Name) and node.id in env:
            return ""
        if isinstance(node, ast.Call) and isinstance(node.func, ast.Name) and node.func.id == "type" and len(node.args) == 1 \
                and not node.keywords:
            if isinstance(node.args[0], ast.Name) and node.args[0].id == "self":
                return ""
            return self.message_effects(node.args[0], env, d)
        if isinstance(node, ast.Attribute) and node.attr == "__name__":
            if ast.unparse(node.value) == "type(self)":
                return ""
            if self.is_getattr_self(node.value) and self.state == "obj":
                a = self.pure_arg(node.value.args[1], env, "str")
                return f"{I}let _ := (← raising self (dunder_name (← raising self (getattr self {a}))))\n"
        if self.is_getattr_self(node) and self.state == "obj":
            return f"{I}let _ := (← raising self (getattr self {self.pure_arg(node.args[1], env, 'str')}))\n"
        self.err(node, "unsupported expression in an error message")

    def block(self, stmts, env, alias, d, cont) -> str:
        if not stmts:
            return cont(env, alias, d)
        s, rest = stmts[0], stmts[1:]
        I = self.ind(d)
        if isinstance(s, ast.Raise):
            if not (isinstance(s.exc, ast.Call) and isinstance(s.exc.func, ast.Name) and s.exc.func.id in progtx.ERRS
                    and not s.exc.keywords and s.cause is None):
                self.err(s, "unsupported exception")
            eff = "".join(self.message_effects(a, env, d) for a in s.exc.args)
            return eff + f"{I}throw (Err.{s.exc.func.id}, self)\n"
        if isinstance(s, ast.Return):
            want = self.spec["ret"]
            if s.value is None:
                if want == "unit":
                    return f"{I}pure (self, ())\n"
                if want == "opttime":
                    return f"{I}pure (self, none)\n"
                self.err(s, "bare return")
            v, k = self.ex(s.value, env)
            k = k.split(":")[0]
            if k == "time" and want == "opttime":
                v = f"(some {v})"
            elif k == "none" and want == "opttime":
                v = "none"
            elif k != want:
                self.err(s, f"returns kind {k}, expected {want}")
            return f"{I}pure (self, {v})\n"
        if isinstance(s, ast.For):
            return self.for_stmt(s, rest, env, alias, d, cont)
        if isinstance(s, (ast.With, ast.Assert, ast.While, ast.Try)):
            self.err(s, "unsupported statement")
        if isinstance(s, ast.Expr) and isinstance(s.value, ast.Call) \
                and ast.unparse(s.value) in DROPPED_STMTS.get((self.CLS, self.spec["py"]), []):
            return self.block(rest, env, alias, d, cont)
        return super().block(stmts, env, alias, d, cont)

    def for_stmt(self, s: ast.For, rest, env, alias, d, cont) -> str:
        """`for x in <set of names>: body`, the body falling through and rebinding nothing but the state"""
        I = self.ind(d)
        if s.orelse or not isinstance(s.target, ast.Name):
            self.err(s, "unsupported loop")
        for x in ast.walk(s):
            if isinstance(x, (ast.Break, ast.Continue, ast.Return)):
                self.err(x, "break / continue / return inside a loop")
        it, kit = self.ex(s.iter, env)
        if kit != "names" or "←" in it:
            self.err(s.iter, f"loop over kind {kit}")
        if [x for x in self.assigned(list(s.body)) if x in env] or s.target.id in env or self.assigned(list(s.body)):
            self.err(s, "loop binding a local")
        v = lname(s.target.id)
        env_b = dict(env)
        env_b[s.target.id] = (v, "str")
        leaf = lambda e, a, dd: f"{self.ind(dd)}pure self\n"   # noqa: E731
        body = self.block(list(s.body), env_b, alias, d + 2, leaf)
        out = f"{I}let self ← {it}.foldlM (fun self {v} => (do\n{body}{I}    : {self.monad} _)) self\n"
        return out + self.block(rest, env, alias, d, cont)

    def call_stmt(self, c: ast.Call, env, alias, d, nxt) -> str:
        I = self.ind(d)
        f = c.func
        # self.__set.add(a)
        if isinstance(f, ast.Attribute) and f.attr == "add" and self.self_attr(f.value) is not None \
                and self.is_private(f.value.attr) and len(c.args) == 1 and not c.keywords and self.state == "obj":
            fld, kind = self.field(c, f.value.attr)
            if kind == "names":
                a = self.pure_arg(c.args[0], env, "str")
                return f"{I}let self := {{ self with {fld} := set_add self.{fld} {a} }}\n" + nxt(env, alias, d)
        # getattr(self, a).reconstrain(dim, size)
        if isinstance(f, ast.Attribute) and f.attr == "reconstrain" and self.is_getattr_self(f.value) and self.state == "obj" \
                and len(c.args) == 2 and not c.keywords:
            a = self.pure_arg(f.value.args[1], env, "str")
            dim = self.pure_arg(c.args[0], env, "int")
            sz, ks = self.ex(c.args[1], env)
            if "←" in sz or ks not in ("int", "none"):
                self.err(c.args[1], f"size of kind {ks}")
            sz = f"(some {sz})" if ks == "int" else "none"
            return (f"{I}let self := (← attrCall self {a} (fun x_ => Attr_reconstrain C x_ {dim} {sz})).1\n"
                    + nxt(env, alias, d))
        # <Class>.<prop>.fset(self, value)
        pv = self.prop_via_class(f)
        if pv is not None and pv[2] == "fset" and not c.keywords and self.state == "obj":
            self.check_self_only(c, c.args, 2)
            if pv[0] not in self.MRO[self.CLS]:
                self.err(c, f"{pv[0]} is not a base of {self.CLS}")
            key = self.resolve(c, pv[0], pv[1], setter=True)
            (kind,) = self.METHODS[key]["params"].values()
            v = self.pure_arg(c.args[1], env, kind)
            return f"{I}let self := (← {key} C self {v}).1\n" + nxt(env, alias, d)
        # self.<method of the concrete subclass>()
        if isinstance(f, ast.Attribute) and self.self_attr(f) is not None and (self.CLS, f.attr) in ABSTRACT \
                and not c.args and not c.keywords and self.state == "obj":
            self.check_abstract(c, f.attr)
            return f"{I}let self := (← C.{ABSTRACT[(self.CLS, f.attr)]} self).1\n" + nxt(env, alias, d)
        self.err(c, "unsupported call statement")

    def check_abstract(self, node, meth: str):
        """`self.<meth>()` of class CLS must resolve, in CLS itself, to a method whose body only raises
        NotImplementedError (the concrete subclass supplies it)"""
        defs = [f for f in self.CLASSES[self.CLS].body if isinstance(f, ast.FunctionDef) and f.name == meth]
        body = [s for s in (defs[0].body if len(defs) == 1 else [])
                if not (isinstance(s, ast.Expr) and isinstance(s.value, ast.Constant))]
        if not (len(body) == 1 and isinstance(body[0], ast.Raise) and isinstance(body[0].exc, ast.Call)
                and ast.unparse(body[0].exc.func) == "NotImplementedError"):
            self.err(node, f"{self.CLS}.{meth} is not an abstract method raising NotImplementedError")

    def assign(self, s: ast.Assign, env, alias, d, nxt) -> str:
        I = self.ind(d)
        t = s.targets[0]
        a = self.self_attr(t)
        if a is not None and self.is_private(a):
            if self.state != "obj":
                self.err(s, "private attribute of a connection")
            fld, kind = self.field(s, a)
            v, k = self.ex(s.value, env)
            if k != kind:
                self.err(s, f"{a} assigned a value of kind {k}")
            return f"{I}let self := {{ self with {fld} := {v} }}\n" + nxt(env, alias, d)
        if a is not None and self.state == "conn":
            # self.<name> = <module value>: `nn.Module.__setattr__` registers the submodule — unless <name> is a property
            v, k = self.ex(s.value, env)
            if any(c in self.CLASSES and any(isinstance(f, ast.FunctionDef) and f.name == a for f in self.CLASSES[c].body)
                   for c in self.MRO[self.CLS]):
                self.err(s, "assignment through a property of the connection itself")
            if k != "module" or "←" in v:
                self.err(s, f"attribute assigned a value of kind {k}")
            return f'{I}let self := (Module_setattr self "{a}" {v})\n' + nxt(env, alias, d)
        # getattr(self, a).<property> = value
        if isinstance(t, ast.Attribute) and self.is_getattr_self(t.value) and t.attr in ATTR_SETTERS and self.state == "obj":
            fn, kind = ATTR_SETTERS[t.attr]
            nm = self.pure_arg(t.value.args[1], env, "str")
            v = self.pure_arg(s.value, env, kind)
            return f"{I}let self := (← attrCall self {nm} (fun x_ => {fn} C x_ {v})).1\n" + nxt(env, alias, d)
        # <modref expression>.<property> = value
        if isinstance(t, ast.Attribute) and not isinstance(t.value, ast.Name) and self.state == "conn":
            ref, k = self.ex(t.value, env)
            if k.startswith("modref:"):
                key = self.resolve(s, DYNAMIC[k.split(":")[1]], t.attr, setter=True)
                if self.METHODS[key].get("state", "obj") != "obj":
                    self.err(s, "setter of a submodule that is not an object program")
                (kind,) = self.METHODS[key]["params"].values()
                v = self.pure_arg(s.value, env, kind)
                return f"{I}let self := (← moduleCall self {ref} (fun m_ => {key} C m_ {v})).1\n" + nxt(env, alias, d)
            self.err(s, f"assignment to an attribute of kind {k}")
        if isinstance(t, ast.Name):
            v, k = self.ex(s.value, env)
            if t.id in env and env[t.id][1] != k:
                self.err(s, "local rebound with another kind")
            env = dict(env)
            env[t.id] = (lname(t.id), k)
            return f"{I}let {lname(t.id)} := {v}\n" + nxt(env, alias, d)
        self.err(s, "unsupported assignment")

    def if_stmt(self, s: ast.If, rest, env, alias, d, cont) -> str:
        body, orelse = list(s.body), list(s.orelse)
        if self.assigned(body + orelse):
            self.err(s, "conditional binding of a local")
        if self.terminates(body) and not self.terminates(orelse):
            orelse, rest = orelse + rest, []           # the statements after the `if` are its else-continuation
        if rest and not (self.terminates(body) and self.terminates(orelse)):
            return self.join_if(s, body, orelse, rest, env, alias, d, cont)
        return self.branch(s.test, body, orelse, env, alias, d, cont)

    def branch(self, test, body, orelse, env, alias, d, cont) -> str:
        I = self.ind(d)
        c, kc = self.ex(test, env)
        if kc != "bool":
            self.err(test, f"condition of kind {kc}")
        return (f"{I}if {c} then\n" + self.block(body, env, alias, d + 1, cont)
                + f"{I}else\n" + self.block(orelse, env, alias, d + 1, cont))

    def join_if(self, s, body, orelse, rest, env, alias, d, cont) -> str:
        """a conditional that falls through into `rest`: its branches return the state, then `rest` continues"""
        I = self.ind(d)
        leaf = lambda e, a, dd: f"{self.ind(dd)}pure self\n"   # noqa: E731
        inner = self.branch(s.test, body, orelse, env, alias, d + 1, leaf)
        return f"{I}let self ← (do\n{inner}{I}  : {self.monad} _)\n" + self.block(rest, env, alias, d, cont)

    # ------------------------------------------------------------------ whole function
    def emit(self) -> str:
        spec, sig = self.spec, self.sigs[self.name]
        where = f"{self.SRC}::{self.CLS}.{spec['py']}"
        if sig["order"] != list(spec["params"]):
            raise TranslateError(where, f"signature changed: {sig['order']} (expected {list(spec['params'])})")
        va = spec.get("vararg", (None, None))[0]
        if (sig["vararg"], sig["kwarg"]) != (va, None):
            raise TranslateError(where, f"signature changed: *{sig['vararg']}, **{sig['kwarg']}")
        env = {p: (lname(p), k) for p, k in spec["params"].items()}
        plist = [(lname(p), self.LEAN_TY[k]) for p, k in spec["params"].items()]
        if va:
            env[va] = (lname(va), spec["vararg"][1])
            plist.append((lname(va), self.LEAN_TY[spec["vararg"][1]]))
        ret = spec["ret"]
        tail = {"unit": lambda e, a, dd: f"{self.ind(dd)}pure (self, ())\n",
                "opttime": lambda e, a, dd: f"{self.ind(dd)}pure (self, none)\n"}.get(
                    ret, lambda e, a, dd: self.err(self.fdef, "falls off the end without returning"))
        body = self.block(list(self.fdef.body), env, {}, 1, tail)
        ptxt = "".join(f" ({p} : {t})" for p, t in plist)
        return (f"def {self.name} (C : Ctx τ) (self : {self.STATE_TY}){ptxt} : "
                f"{self.monad} ({self.STATE_TY} × {self.LEAN_TY[ret]}) := do\n" + body)


def locate(classes: dict, src: str, spec: dict) -> ast.FunctionDef:
    where = f"{src}::{spec['cls']}.{spec['py']}"
    if spec["cls"] not in classes:
        raise TranslateError(src, f"class {spec['cls']} not found")
    want = [spec["decorator"]] if spec.get("decorator") else []
    found = [n for n in classes[spec["cls"]].body if isinstance(n, ast.FunctionDef) and n.name == spec["py"]
             and decorators(n) == want]
    if len(found) != 1:
        raise TranslateError(where, f"{len(found)} definitions with decorators {want}")
    return found[0]


def signature(where: str, f: ast.FunctionDef) -> dict:
    a = f.args
    pos = [x.arg for x in a.posonlyargs + a.args]
    if not pos or pos[0] != "self":
        raise TranslateError(where, "first parameter is not self")
    pos = pos[1:]
    order = pos + [x.arg for x in a.kwonlyargs]
    defaults = dict(zip(pos[len(pos) - len(a.defaults):], a.defaults))
    defaults.update({x.arg: dflt for x, dflt in zip(a.kwonlyargs, a.kw_defaults) if dflt is not None})
    return {"order": order, "defaults": defaults, "vararg": a.vararg.arg if a.vararg else None,
            "kwarg": a.kwarg.arg if a.kwarg else None}


def regenerate() -> dict:
    """regenerates Gen/ConfigProg.lean; same return shape as `progtx.regenerate_class`"""
    T = CfgTx
    srcs, per_file, classes = {}, {}, {}
    for path in SOURCES:
        srcs[path] = (REPO / path).read_text()
        per_file[path] = {n.name: n for n in ast.parse(srcs[path]).body if isinstance(n, ast.ClassDef)}
        for name, node in per_file[path].items():
            if name in classes:
                raise TranslateError(path, f"class {name} is defined in two of the translated files")
            classes[name] = node
    T.CLASSES = classes
    T.MRO = linearise(classes)
    fdefs, sigs = {}, {}
    for k, s in T.METHODS.items():
        if s["cls"] not in per_file[s["src"]]:
            raise TranslateError(s["src"], f"class {s['cls']} not found")
        fdefs[k] = locate(per_file[s["src"]], s["src"], s)
        sigs[k] = signature(f"{s['src']}::{s['cls']}.{s['py']}", fdefs[k])
    text = T.HEADER
    info = {}
    for k, s in T.METHODS.items():
        seg = ast.get_source_segment(srcs[s["src"]], fdefs[k]) or ""
        sha = hashlib.sha256(seg.encode()).hexdigest()[:16]
        dec = f" (`@{s['decorator']}`)" if s.get("decorator") else ""
        text += (f"\n/-- from `{s['src']}` :: `{s['cls']}.{s['py']}`{dec} (sha256 of source segment {sha}) -/\n"
                 + T(k, fdefs[k], sigs).emit())
        info[k] = sha
    text += f"\nend {T.NAMESPACE}\n"
    p = GEN / T.OUT
    changed = not p.exists() or p.read_text() != text
    if changed:
        p.write_text(text)
    return {"functions": info, "rewritten": changed}


if __name__ == "__main__":
    print(json.dumps(regenerate(), indent=1))
