"""Statement-level translator, monitor classes (DESIGN §12.5, properties C15 / C08):
`inferno/observe/monitors.py` — `Monitor.reducer`, `latest`, `clear`, `view`, `dump`, `peek`, `register`, the hook
bodies `InputMonitor._monitor_call`, `OutputMonitor._monitor_call`, `StateMonitor._monitor_call`,
`DifferenceMonitor._monitor_pre_call` / `_monitor_post_call` / `clear`, `MultiStateMonitor._monitor_call`, and the five
`partialconstructor` class methods — → Lean programs over the world `MW V` (`Gen/MonitorPrelude.lean`), regenerated on
every run as `Gen/MonitorProg.lean` (core Lean only).

What is kept from the source, statement by statement and in SOURCE ORDER: the `if module:` / `elif not
self.registered:` cascade of `Monitor.register`, the `try … except RuntimeError: raise RuntimeError … else:
self._observed = weakref.ref(module)` block (any other exception class propagates), the guarded dereference `if
self._observed and self._observed(): module = self._observed()` and the `RuntimeError` of a missing / dead
reference; in the hook bodies the `rgetattr` reads (one per attribute, in order, inside `tuple(…)` for
`MultiStateMonitor`), WHICH value goes to `filter_` and to `map_` and in which argument order (`res, self.__data` =
post-forward value first, pre-forward value second), that the reducer is called only inside the `if`, whether it
is reached through `self.reducer_` or the property `self.reducer`; in the forwarders that `*args` / `**kwargs` are
handed on unchanged and the reducer's result is returned; in a `partialconstructor` which keyword of the `cls(…)`
call is bound to which frozen parameter / to the closure's `attr` / `module` / `rgetattr(module, attr)`.

Translation rules beyond `progtx.Tx` (anything else raises `TranslateError` naming the node):
* `if x:` on an optional module is a `match` refining `x` (a `Module` is truthy: no `__bool__` / `__len__` — an
  assumption on the monitored module classes, stated in the prelude);
* `if r and r():` on `self._observed` is a `match` on `weakref_resolve self r`; inside the branch `r()` is the
  matched referent (until `self._observed` is assigned);
* `try: <one call> except E: … else: …` is a `match` on the result of the call: `.error (Err.E, self)` → handler,
  `.error e_` → `throw e_`, `.ok self` → the `else` block; statements after an `if` / `try` continue every branch
  that falls through (the text is repeated);
* a call on `self.reducer_` / `self.reducer` is logged in the world (`reducer_do`); a user callable (`self.filter_`,
  `self.map_`) is a vocabulary call that may raise; `X.register(self, module)` for a base class `X` whose MRO
  reaches `Hook.register` without an override (checked on `inferno/core/infrastructure.py`) is
  `ContextualHook_register` (regenerated separately in `Gen/HookProg.lean`; tied by `hook_register_agrees`).
* a `partialconstructor` must consist of a nested `def constructor(attr, module): return cls(<keywords>)` and
  `return constructor`; it becomes a Lean closure returning the record `CtorCall` of the keywords (a keyword that is
  not passed is `none`).

`Props/C15GlueMonitor.lean` proves the generated programs equal to `Model/Lifecycle.lean :: registerMon` /
`deregisterMon` and states what each hook body hands to the reducer.
"""
from __future__ import annotations

import ast
import hashlib
import json

import progtx
from progtx import Tx
from translate import GEN, REPO, TranslateError, lname

SRC = "inferno/observe/monitors.py"
SRC_INFRA = "inferno/core/infrastructure.py"

LEAN_TY = {"optlayer": "Option Nat", "layer": "Nat", "snap": "Nat", "val": "V", "unit": "Unit", "bool": "Bool",
           "reducer": "ReducerRef", "attr": "Nat", "attrs": "List Nat", "vals": "List V"}

HOOK_ARGS = {"module": "snap", "args": "val"}
CTOR_BOOLS = ("as_prehook", "train_update", "eval_update", "prepend")
CTOR_FNS = ("filter_", "map_", "op_")
CTOR_FIELDS = ("reducer", "attr", "subattrs", "module") + CTOR_BOOLS + CTOR_FNS


def ctor_params(*names):
    kinds = {"reducer": "R", "subattrs": "subattrs"}
    return {n: kinds.get(n, "bool" if n in CTOR_BOOLS else "optfn") for n in names}


# functions, in emission order (callees first).  key = name of the generated definition
METHODS = {
    "Monitor_reducer": {"cls": "Monitor", "py": "reducer", "decorator": "property", "params": {}, "ret": "reducer"},
    "Monitor_latest": {"cls": "Monitor", "py": "latest", "decorator": "property", "params": {}, "ret": "val"},
    "Monitor_clear": {"cls": "Monitor", "py": "clear", "params": {}, "kwarg": "kwargs", "ret": "val"},
    "Monitor_view": {"cls": "Monitor", "py": "view", "params": {}, "vararg": "args", "kwarg": "kwargs", "ret": "val"},
    "Monitor_dump": {"cls": "Monitor", "py": "dump", "params": {}, "vararg": "args", "kwarg": "kwargs", "ret": "val"},
    "Monitor_peek": {"cls": "Monitor", "py": "peek", "params": {}, "vararg": "args", "kwarg": "kwargs", "ret": "val"},
    "Monitor_register": {"cls": "Monitor", "py": "register", "params": {"module": "optlayer"}, "ret": "unit"},
    "InputMonitor__monitor_call": {"cls": "InputMonitor", "py": "_monitor_call", "params": dict(HOOK_ARGS),
                                   "dropvararg": "_", "ret": "unit"},
    "OutputMonitor__monitor_call": {"cls": "OutputMonitor", "py": "_monitor_call",
                                    "params": dict(HOOK_ARGS, output="val"), "dropvararg": "_", "ret": "unit"},
    "StateMonitor__monitor_call": {"cls": "StateMonitor", "py": "_monitor_call", "params": dict(HOOK_ARGS),
                                   "dropvararg": "_", "ret": "unit"},
    "DifferenceMonitor__monitor_pre_call": {"cls": "DifferenceMonitor", "py": "_monitor_pre_call",
                                            "params": dict(HOOK_ARGS), "dropvararg": "_", "ret": "unit"},
    "DifferenceMonitor__monitor_post_call": {"cls": "DifferenceMonitor", "py": "_monitor_post_call",
                                             "params": dict(HOOK_ARGS), "dropvararg": "_", "ret": "unit"},
    "DifferenceMonitor_clear": {"cls": "DifferenceMonitor", "py": "clear", "params": {}, "kwarg": "kwargs",
                                "ret": "val"},
    "MultiStateMonitor__monitor_call": {"cls": "MultiStateMonitor", "py": "_monitor_call", "params": dict(HOOK_ARGS),
                                        "dropvararg": "_", "ret": "unit"},
    "InputMonitor_partialconstructor": {
        "cls": "InputMonitor", "py": "partialconstructor", "decorator": "classmethod", "form": "ctor",
        "params": ctor_params("reducer", "train_update", "eval_update", "prepend", "filter_", "map_")},
    "OutputMonitor_partialconstructor": {
        "cls": "OutputMonitor", "py": "partialconstructor", "decorator": "classmethod", "form": "ctor",
        "params": ctor_params("reducer", "train_update", "eval_update", "prepend", "filter_", "map_")},
    "StateMonitor_partialconstructor": {
        "cls": "StateMonitor", "py": "partialconstructor", "decorator": "classmethod", "form": "ctor",
        "params": ctor_params("reducer", "as_prehook", "train_update", "eval_update", "prepend", "filter_", "map_")},
    "DifferenceMonitor_partialconstructor": {
        "cls": "DifferenceMonitor", "py": "partialconstructor", "decorator": "classmethod", "form": "ctor",
        "params": ctor_params("reducer", "train_update", "eval_update", "prepend", "filter_", "map_", "op_")},
    "MultiStateMonitor_partialconstructor": {
        "cls": "MultiStateMonitor", "py": "partialconstructor", "decorator": "classmethod", "form": "ctor",
        "params": ctor_params("reducer", "subattrs", "as_prehook", "train_update", "eval_update", "prepend", "filter_",
                              "map_")},
}

CTOR_TY = {"R": "R", "bool": "Bool", "optfn": "Option F", "subattrs": "List Nat"}

# attributes of `self`: (python attribute after un-mangling) -> (lean text, kind)
SELF_ATTRS = {"reducer_": ("ReducerRef.reducer_", "reducer"), "_observed": ("self.observed", "optweak"),
              "__observed_attr": ("self.attr", "attr"), "__observed_attrs": ("self.attrs", "attrs"),
              "__data": ("self.data", "val")}
PRIVATE_OWNER = {"__observed_attr": {"StateMonitor", "DifferenceMonitor"}, "__observed_attrs": {"MultiStateMonitor"},
                 "__data": {"DifferenceMonitor"}}
REDUCER_METHODS = {"clear": "clear", "view": "view", "dump": "dump", "peek": "peek"}
# names that only `Monitor` (or, where listed, one subclass) may define: the forwarders / registration are inherited
INHERITED = {"register": set(), "deregister": set(), "registered": set(), "reducer": set(), "latest": set(),
             "view": set(), "dump": set(), "peek": set(), "clear": {"DifferenceMonitor"}}
SUBCLASSES = ("InputMonitor", "OutputMonitor", "StateMonitor", "DifferenceMonitor", "MultiStateMonitor")

HEADER = """import InfernoVerif.Gen.MonitorPrelude
/-! GENERATED by harness/progtx_monitor.py from inferno/observe/monitors.py (classes `Monitor`, `InputMonitor`,
`OutputMonitor`, `StateMonitor`, `DifferenceMonitor`, `MultiStateMonitor`) — do not edit.
Whole bodies as programs over the world `MW V` (a monitor object, the hook lists it registers in, its user
callables and the log of calls on its reducer); an exception carries the world at the raise; a
`partialconstructor` is a closure returning the keyword arguments of its `cls(…)` call.
Vocabulary: Gen/MonitorPrelude.lean. -/
set_option linter.unusedVariables false
namespace InfernoVerif.Gen.MonitorProg
open InfernoVerif.Lifecycle InfernoVerif.Gen.MonitorPrelude

variable {V R F : Type}
"""

MONAD = "Except (Err × MW V)"


class MonTx(Tx):
    SRC = SRC
    CLS = "Monitor"              # per instance: the class of the function being translated
    METHODS = METHODS
    LEAN_TY = LEAN_TY
    STATE_TY = "MW V"
    DROPPED_PARAMS: set = set()
    OUT = "MonitorProg.lean"
    NAMESPACE = "InfernoVerif.Gen.MonitorProg"
    HEADER = HEADER
    CLASSES: dict = {}

    def __init__(self, name: str, fdef: ast.FunctionDef, sigs: dict):
        super().__init__(name, fdef, sigs)
        self.CLS = self.spec["cls"]

    def err(self, node, msg):
        where = f"{self.SRC}::{self.CLS}.{self.spec['py']}:{getattr(node, 'lineno', '?')}"
        raise TranslateError(where, f"{msg}: {ast.unparse(node)[:140] if isinstance(node, ast.AST) else node}")

    def tmp(self, stem="r") -> str:
        self.fresh += 1
        return f"{stem}{self.fresh}_"

    # ------------------------------------------------------------------ names
    def self_attr(self, n) -> str | None:
        if isinstance(n, ast.Attribute) and isinstance(n.value, ast.Name) and n.value.id == "self":
            return n.attr
        return None

    def is_weak_call(self, n) -> str | None:
        """`self._observed()` -> unparsed receiver"""
        if isinstance(n, ast.Call) and not n.args and not n.keywords and self.self_attr(n.func) == "_observed":
            return ast.unparse(n.func)
        return None

    def reducer_ref(self, n, env) -> str | None:
        """`self.reducer_` (the attribute) or `self.reducer` (the property of `Monitor`) -> lean text"""
        a = self.self_attr(n)
        if a == "reducer_":
            return "ReducerRef.reducer_"
        if a == "reducer":
            return "(← Monitor_reducer self).2"
        return None

    # ------------------------------------------------------------------ expressions
    def ex(self, n, env):
        if isinstance(n, ast.Constant):
            if n.value is None:
                return "none", "none"
            if isinstance(n.value, bool):
                return ("true" if n.value else "false"), "bool"
            self.err(n, "unsupported constant")
        if isinstance(n, ast.Name):
            if n.id not in env or n.id.startswith("%"):
                self.err(n, "unknown name")
            return env[n.id]
        if isinstance(n, ast.Attribute):
            a = self.self_attr(n)
            if a in SELF_ATTRS:
                if a in PRIVATE_OWNER and self.CLS not in PRIVATE_OWNER[a]:
                    self.err(n, f"name-mangled attribute of another class than {sorted(PRIVATE_OWNER[a])}")
                return SELF_ATTRS[a]
            if a == "reducer":
                return "(← Monitor_reducer self).2", "reducer"
            if a == "registered":
                return "(Hook_registered self)", "bool"
            self.err(n, "unsupported attribute")
        if isinstance(n, ast.UnaryOp) and isinstance(n.op, ast.Not):
            v, k = self.ex(n.operand, env)
            if k != "bool":
                self.err(n, f"`not` on kind {k}")
            return f"(!{v})", "bool"
        if isinstance(n, ast.Call):
            return self.call(n, env)
        self.err(n, "unsupported expression")

    def call(self, n: ast.Call, env):
        f = n.func
        ftxt = ast.unparse(f)
        nokw = not n.keywords
        if self.is_weak_call(n):
            res = env.get("%resolved")
            if res is None or res[1] != self.is_weak_call(n):
                self.err(n, "call of a weak reference outside its `r and r()` guard")
            return res[0], "layer"
        if ftxt == "weakref.ref" and len(n.args) == 1 and nokw:
            v, k = self.ex(n.args[0], env)
            if k == "layer":
                return f"(weakref_ref {v})", "weak"
        if ftxt == "rgetattr" and len(n.args) == 2 and nokw:
            m, km = self.ex(n.args[0], env)
            a, ka = self.ex(n.args[1], env)
            if km == "snap" and ka == "attr":
                return f"(← rgetattr self {m} {a})", "val"
        if ftxt == "self.filter_" and len(n.args) in (1, 2) and nokw:
            vs = [self.ex(x, env) for x in n.args]
            if all(k == "val" for _, k in vs):
                fn = "call_filter" if len(vs) == 1 else "call_filter2"
                return f"(← {fn} self {' '.join(v for v, _ in vs)})", "bool"
        if ftxt == "self.map_" and len(n.args) in (1, 2) and nokw:
            vs = [self.ex(x, env) for x in n.args]
            if all(k == "val" for _, k in vs):
                fn = "call_map" if len(vs) == 1 else "call_map2"
                return f"(← {fn} self {' '.join(v for v, _ in vs)})", "star"      # only meaningful star-unpacked
        if ftxt == "tuple" and len(n.args) == 1 and nokw and isinstance(n.args[0], ast.GeneratorExp):
            g = n.args[0]
            if len(g.generators) == 1 and not g.generators[0].ifs and not g.generators[0].is_async \
                    and isinstance(g.generators[0].target, ast.Name):
                it, kit = self.ex(g.generators[0].iter, env)
                if kit == "attrs":
                    var = lname(g.generators[0].target.id)
                    env2 = dict(env)
                    env2[g.generators[0].target.id] = (var, "attr")
                    e, ke = self.ex(g.elt, env2)
                    if ke == "val":
                        if e.startswith("(← ") and e.endswith(")") and e.count("←") == 1:
                            fn = f"(fun {var} => {e[3:-1]})"
                        else:
                            fn = f"(fun {var} => (do pure {e} : {MONAD} _))"
                        return f"(self.fns.tuple (← mapE {fn} {it}))", "val"
        self.err(n, "unsupported call")

    def reducer_call(self, c: ast.Call, env):
        """a call on the reducer -> (`reducer_do …` text) or None
        `R(*self.map_(…))`, `self.reducer_.<m>(*args, **kwargs)`, `self.reducer_.clear(**kwargs)`"""
        f = c.func
        ref = self.reducer_ref(f, env)
        if ref is not None:
            if len(c.args) == 1 and isinstance(c.args[0], ast.Starred) and not c.keywords:
                v, k = self.ex(c.args[0].value, env)
                if k == "star":
                    return f"(reducer_do self {ref} (RCall.call {v}))"
            self.err(c, "unsupported arguments of a reducer call")
        if isinstance(f, ast.Attribute) and f.attr in REDUCER_METHODS:
            ref = self.reducer_ref(f.value, env)
            if ref is None:
                return None
            va, kw = self.spec.get("vararg"), self.spec.get("kwarg")
            star = [a for a in c.args if isinstance(a, ast.Starred)]
            dstar = [k for k in c.keywords if k.arg is None]
            if len(star) != len(c.args) or len(dstar) != len(c.keywords) or len(star) > 1 or len(dstar) > 1:
                self.err(c, "a forwarder passes something else than *args / **kwargs")
            if star and not (isinstance(star[0].value, ast.Name) and star[0].value.id == va):
                self.err(c, "*argument is not the method's own *args")
            if dstar and not (isinstance(dstar[0].value, ast.Name) and dstar[0].value.id == kw):
                self.err(c, "**argument is not the method's own **kwargs")
            if f.attr == "clear":
                if star or not dstar:
                    self.err(c, "clear is forwarded with **kwargs only")
                return f"(reducer_do self {ref} (RCall.clear {env[kw][0]}))"
            if not star or not dstar:
                self.err(c, f"{f.attr} is forwarded with *args and **kwargs")
            return f"(reducer_do self {ref} (RCall.{f.attr} {env[va][0]} {env[kw][0]}))"
        return None

    def base_register(self, c: ast.Call, env) -> str | None:
        """`X.register(self, module)` with X a base class reaching `Hook.register` -> call text (no `←`)"""
        f = c.func
        if isinstance(f, ast.Attribute) and f.attr == "register" and isinstance(f.value, ast.Name) \
                and f.value.id in self.HOOK_BASES and len(c.args) == 2 and not c.keywords \
                and isinstance(c.args[0], ast.Name) and c.args[0].id == "self":
            if f.value.id not in [ast.unparse(b) for b in self.CLASSES["Monitor"].bases]:
                self.err(c, f"{f.value.id} is not a base class of Monitor")
            m, km = self.ex(c.args[1], env)
            if km == "layer":
                return f"ContextualHook_register self {m}"
        return None

    # ------------------------------------------------------------------ statements
    def block(self, stmts, env, alias, d, cont) -> str:
        if not stmts:
            return cont(env, alias, d)
        s, rest = stmts[0], stmts[1:]
        I = self.ind(d)
        nxt = lambda e, a, dd: self.block(rest, e, a, dd, cont)   # noqa: E731
        if isinstance(s, ast.Expr) and isinstance(s.value, ast.Constant) and isinstance(s.value.value, str):
            return nxt(env, alias, d)
        if isinstance(s, ast.Raise):
            exc = s.exc.func.id if isinstance(s.exc, ast.Call) and isinstance(s.exc.func, ast.Name) else None
            if exc not in progtx.ERRS or s.cause is not None:
                self.err(s, "unsupported exception")
            return f"{I}throw (Err.{exc}, self)\n"
        if isinstance(s, ast.Return):
            return self.ret_stmt(s, env, d)
        if isinstance(s, ast.Expr) and isinstance(s.value, ast.Call):
            return self.call_stmt(s.value, env, alias, d, nxt)
        if isinstance(s, ast.Assign) and len(s.targets) == 1:
            return self.assign(s, env, alias, d, nxt)
        if isinstance(s, ast.If):
            return self.branch(s.test, list(s.body), list(s.orelse), env, alias, d, nxt)
        if isinstance(s, ast.Try):
            return self.try_stmt(s, env, alias, d, nxt)
        self.err(s, "unsupported statement")

    def ret_stmt(self, s: ast.Return, env, d) -> str:
        I = self.ind(d)
        want = self.spec["ret"]
        if s.value is None:
            if want != "unit":
                self.err(s, "bare return")
            return f"{I}pure (self, ())\n"
        # the reducer's answer is returned as it is
        txt = None
        if isinstance(s.value, ast.Call):
            txt = self.reducer_call(s.value, env)
        elif isinstance(s.value, ast.Attribute) and s.value.attr == "latest":
            ref = self.reducer_ref(s.value.value, env)
            if ref is not None:
                txt = f"(reducer_do self {ref} RCall.latest)"
        if txt is not None:
            if want != "val":
                self.err(s, f"returns the reducer's answer, expected kind {want}")
            r = self.tmp("r")
            return f"{I}let {r} := {txt}\n{I}let self := {r}.1\n{I}pure (self, {r}.2)\n"
        v, k = self.ex(s.value, env)
        if k != want:
            self.err(s, f"returns kind {k}, expected {want}")
        return f"{I}pure (self, {v})\n"

    def call_stmt(self, c: ast.Call, env, alias, d, nxt) -> str:
        I = self.ind(d)
        txt = self.reducer_call(c, env)
        if txt is not None:
            return f"{I}let self := {txt}.1\n" + nxt(env, alias, d)
        txt = self.base_register(c, env)
        if txt is not None:
            return f"{I}let self := (← {txt})\n" + nxt(env, alias, d)
        self.err(c, "unsupported call statement")

    def assign(self, s: ast.Assign, env, alias, d, nxt) -> str:
        I = self.ind(d)
        t, val = s.targets[0], s.value
        if isinstance(t, ast.Name):
            if t.id == "self":
                self.err(s, "assignment to self")
            v, k = self.ex(val, env)
            if k in ("star", "none", "weak"):
                self.err(s, f"a local of kind {k}")
            if t.id in env and env[t.id][1] not in (k, "optlayer"):
                self.err(s, f"local rebound from kind {env[t.id][1]} to kind {k}")
            env2 = dict(env)
            env2[t.id] = (lname(t.id), k)
            return f"{I}let {lname(t.id)} := {v}\n" + nxt(env2, alias, d)
        a = self.self_attr(t)
        if a == "_observed":
            v, k = self.ex(val, env)
            if k != "weak":
                self.err(s, f"self._observed assigned a value of kind {k}")
            env2 = {x: y for x, y in env.items() if x != "%resolved"}
            return f"{I}let self := {{ self with observed := some {v} }}\n" + nxt(env2, alias, d)
        if a == "__data":
            if self.CLS not in PRIVATE_OWNER["__data"]:
                self.err(s, "name-mangled attribute of another class")
            v, k = self.ex(val, env)
            if k == "none":
                v, k = "self.fns.none", "val"
            if k != "val":
                self.err(s, f"self.__data assigned a value of kind {k}")
            return f"{I}let self := {{ self with data := {v} }}\n" + nxt(env, alias, d)
        self.err(s, "unsupported assignment")

    def branch(self, test, body, orelse, env, alias, d, cont) -> str:
        """a conditional; `cont` continues every branch that falls through"""
        I = self.ind(d)
        # `if module:` on an optional module
        if isinstance(test, ast.Name) and env.get(test.id, ("", ""))[1] == "optlayer":
            v = env[test.id][0]
            env_s = dict(env)
            env_s[test.id] = (v, "layer")
            return (f"{I}match {v} with\n{I}| some {v} =>\n" + self.block(body, env_s, alias, d + 1, cont)
                    + f"{I}| none =>\n" + self.block(orelse, env, alias, d + 1, cont))
        # `if r and r():`
        if isinstance(test, ast.BoolOp) and isinstance(test.op, ast.And) and len(test.values) == 2 \
                and self.is_weak_call(test.values[1]) == ast.unparse(test.values[0]):
            v, k = self.ex(test.values[0], env)
            if k == "optweak":
                r = self.tmp("m")
                env_s = dict(env)
                env_s["%resolved"] = (r, ast.unparse(test.values[0]))
                return (f"{I}match (weakref_resolve self {v}) with\n{I}| some {r} =>\n"
                        + self.block(body, env_s, alias, d + 1, cont)
                        + f"{I}| none =>\n" + self.block(orelse, env, alias, d + 1, cont))
        c, kc = self.ex(test, env)
        if kc != "bool":
            self.err(test, f"condition of kind {kc}")
        return (f"{I}if {c} then\n" + self.block(body, env, alias, d + 1, cont)
                + f"{I}else\n" + self.block(orelse, env, alias, d + 1, cont))

    def try_stmt(self, s: ast.Try, env, alias, d, cont) -> str:
        I = self.ind(d)
        if s.finalbody or len(s.body) != 1 or not (isinstance(s.body[0], ast.Expr) and isinstance(s.body[0].value, ast.Call)):
            self.err(s, "unsupported try statement")
        txt = self.base_register(s.body[0].value, env)
        if txt is None:
            self.err(s.body[0], "unsupported call under try")
        out = f"{I}match ({txt}) with\n"
        seen = []
        for h in s.handlers:
            if not (isinstance(h.type, ast.Name) and h.type.id in progtx.ERRS) or h.name is not None or h.type.id in seen:
                self.err(h, "unsupported exception handler")
            seen.append(h.type.id)
            out += f"{I}| .error (Err.{h.type.id}, self) =>\n" + self.block(list(h.body), env, alias, d + 1, cont)
        out += f"{I}| .error e_ =>\n{I}  throw e_\n"
        out += f"{I}| .ok self =>\n" + self.block(list(s.orelse), env, alias, d + 1, cont)
        return out

    # ------------------------------------------------------------------ whole function
    def emit(self) -> str:
        if self.spec.get("form") == "ctor":
            return self.emit_ctor()
        spec, sig = self.spec, self.sigs[self.name]
        where = f"{self.SRC}::{self.CLS}.{spec['py']}"
        if sig["order"] != list(spec["params"]):
            raise TranslateError(where, f"signature changed: {sig['order']} (expected {list(spec['params'])})")
        if (sig["vararg"], sig["kwarg"]) != (spec.get("vararg") or spec.get("dropvararg"), spec.get("kwarg")):
            raise TranslateError(where, f"signature changed: *{sig['vararg']}, **{sig['kwarg']}")
        if spec.get("dropvararg") and any(isinstance(x, ast.Name) and x.id == spec["dropvararg"]
                                          for b in self.fdef.body for x in ast.walk(b)):
            raise TranslateError(where, f"the ignored *{spec['dropvararg']} is used")
        env = {p: (lname(p), k) for p, k in spec["params"].items()}
        plist = [(lname(p), self.LEAN_TY[k]) for p, k in spec["params"].items()]
        for extra in (spec.get("vararg"), spec.get("kwarg")):
            if extra:
                env[extra] = (lname(extra), "val")
                plist.append((lname(extra), "V"))
        ret = spec["ret"]
        tail = (lambda e, a, dd: f"{self.ind(dd)}pure (self, ())\n") if ret == "unit" else \
               (lambda e, a, dd: self.err(self.fdef, "falls off the end without returning"))
        body = self.block(list(self.fdef.body), env, {}, 1, tail)
        ptxt = "".join(f" ({p} : {t})" for p, t in plist)
        return f"def {self.name} (self : MW V){ptxt} : {MONAD} (MW V × {self.LEAN_TY[ret]}) := do\n" + body

    def emit_ctor(self) -> str:
        spec, sig = self.spec, self.sigs[self.name]
        where = f"{self.SRC}::{self.CLS}.{spec['py']}"
        if sig["order"] != list(spec["params"]) or sig["vararg"] or sig["kwarg"] or sig["first"] != "cls":
            raise TranslateError(where, f"signature changed: {sig['order']} (expected cls, {list(spec['params'])})")
        body = [b for b in self.fdef.body
                if not (isinstance(b, ast.Expr) and isinstance(b.value, ast.Constant) and isinstance(b.value.value, str))]
        if len(body) != 2 or not isinstance(body[0], ast.FunctionDef) or not isinstance(body[1], ast.Return) \
                or not (isinstance(body[1].value, ast.Name) and body[1].value.id == body[0].name):
            self.err(self.fdef, "a partialconstructor must be `def constructor(…): …; return constructor`")
        inner = body[0]
        a = inner.args
        if [x.arg for x in a.args] != ["attr", "module"] or a.vararg or a.kwarg or a.kwonlyargs or a.posonlyargs \
                or a.defaults or inner.decorator_list:
            self.err(inner, "the closure's signature is not (attr, module)")
        ib = list(inner.body)
        if len(ib) != 1 or not isinstance(ib[0], ast.Return) or not isinstance(ib[0].value, ast.Call):
            self.err(inner, "the closure must be a single `return cls(…)`")
        c = ib[0].value
        if not (isinstance(c.func, ast.Name) and c.func.id == "cls") or c.args or any(k.arg is None for k in c.keywords):
            self.err(c, "the closure must call `cls` with keyword arguments only")
        fields = {}
        for k in c.keywords:
            if k.arg not in CTOR_FIELDS or k.arg in fields:
                self.err(c, f"unsupported keyword {k.arg}")
            v = k.value
            if k.arg == "module":
                if isinstance(v, ast.Name) and v.id == "module":
                    fields[k.arg] = "Target.module module"
                elif isinstance(v, ast.Call) and ast.unparse(v) == "rgetattr(module, attr)":
                    fields[k.arg] = "Target.sub module attr"
                else:
                    self.err(v, "unsupported module argument")
            elif k.arg == "attr":
                if not (isinstance(v, ast.Name) and v.id == "attr"):
                    self.err(v, "attr must be the closure's attr")
                fields[k.arg] = "some attr"
            else:
                # a frozen parameter, passed under ITS OWN kind
                if not (isinstance(v, ast.Name) and v.id in spec["params"]):
                    self.err(v, f"keyword {k.arg} is not bound to a parameter of partialconstructor")
                pk = spec["params"][v.id]
                want = "R" if k.arg == "reducer" else "subattrs" if k.arg == "subattrs" else \
                    "bool" if k.arg in CTOR_BOOLS else "optfn"
                if pk != want:
                    self.err(v, f"keyword {k.arg} bound to a parameter of kind {pk}")
                fields[k.arg] = lname(v.id) if pk in ("R", "optfn") else f"some {lname(v.id)}"
        if "reducer" not in fields or "module" not in fields:
            self.err(c, "reducer / module keyword missing")
        parts = [f"cls := MonCls.{self.CLS}"] + [f"{lname(f)} := {fields.get(f, 'none')}" for f in CTOR_FIELDS]
        ptxt = "".join(f" ({lname(p)} : {CTOR_TY[k]})" for p, k in spec["params"].items())
        return (f"def {self.name}{ptxt} : Nat → Nat → CtorCall R F :=\n  fun attr module =>\n    {{ "
                + ",\n      ".join(parts) + " }\n")


def class_map(tree) -> dict:
    return {n.name: n for n in tree.body if isinstance(n, ast.ClassDef)}


def defs_of(cdef: ast.ClassDef) -> set:
    return {n.name for n in cdef.body if isinstance(n, (ast.FunctionDef, ast.AsyncFunctionDef))} | \
        {t.id for n in cdef.body if isinstance(n, ast.Assign) for t in n.targets if isinstance(t, ast.Name)}


def check_environment(tree, classes: dict) -> set:
    """what the vocabulary assumes about code OUTSIDE the translated bodies; returns the base classes of `Monitor`
    through which `X.register(self, module)` is `Hook.register`"""
    for c in ("Monitor",) + SUBCLASSES:
        if c not in classes:
            raise TranslateError(SRC, f"class {c} not found")
    if [ast.unparse(b) for b in classes["Monitor"].bases] != ["Module", "ContextualHook"]:
        raise TranslateError(f"{SRC}::Monitor", "bases changed (expected Module, ContextualHook)")
    for c in SUBCLASSES:
        if [ast.unparse(b) for b in classes[c].bases] != ["Monitor"]:
            raise TranslateError(f"{SRC}::{c}", "bases changed (expected Monitor)")
        for nm, allowed in INHERITED.items():
            if nm in defs_of(classes[c]) and c not in allowed:
                raise TranslateError(f"{SRC}::{c}", f"overrides {nm} (the forwarders / registration are Monitor's)")
    if "deregister" in defs_of(classes["Monitor"]) or "registered" in defs_of(classes["Monitor"]):
        raise TranslateError(f"{SRC}::Monitor", "defines deregister / registered (expected to inherit Hook's)")
    imports = {}
    for n in tree.body:
        if isinstance(n, ast.ImportFrom):
            for a in n.names:
                imports[a.asname or a.name] = ("." * n.level) + (n.module or "")
        elif isinstance(n, ast.Import):
            for a in n.names:
                imports[a.asname or a.name] = a.name
        elif isinstance(n, (ast.FunctionDef, ast.Assign)) :
            for nm in ([n.name] if isinstance(n, ast.FunctionDef) else [t.id for t in n.targets if isinstance(t, ast.Name)]):
                if nm in ("rgetattr", "weakref", "Module", "ContextualHook"):
                    raise TranslateError(SRC, f"{nm} is redefined at module level")
    want = {"Module": "..", "ContextualHook": "..", "rgetattr": ".._internal", "weakref": "weakref"}
    for nm, mod in want.items():
        if imports.get(nm) != mod:
            raise TranslateError(SRC, f"{nm} is not imported from {mod!r} (found {imports.get(nm)!r})")
    # Hook.register / deregister / registered reach `Monitor` through ContextualHook without an override
    infra = class_map(ast.parse((REPO / SRC_INFRA).read_text()))
    for c in ("Module", "Hook", "ContextualHook"):
        if c not in infra:
            raise TranslateError(SRC_INFRA, f"class {c} not found")
    if [ast.unparse(b) for b in infra["ContextualHook"].bases] != ["Hook"]:
        raise TranslateError(f"{SRC_INFRA}::ContextualHook", "bases changed (expected Hook)")
    for nm in ("register", "deregister", "registered"):
        if nm in defs_of(infra["ContextualHook"]) or nm in defs_of(infra["Module"]):
            raise TranslateError(SRC_INFRA, f"{nm} is overridden between Monitor and Hook")
        if nm not in defs_of(infra["Hook"]):
            raise TranslateError(f"{SRC_INFRA}::Hook", f"{nm} not found")
    return {"ContextualHook"}


def locate(classes: dict, key: str, spec: dict) -> ast.FunctionDef:
    where = f"{SRC}::{spec['cls']}.{spec['py']}"
    want = [spec["decorator"]] if spec.get("decorator") else []
    found = [n for n in classes[spec["cls"]].body if isinstance(n, ast.FunctionDef) and n.name == spec["py"]
             and [ast.unparse(d) for d in n.decorator_list] == want]
    if len(found) != 1:
        raise TranslateError(where, f"{len(found)} definitions with decorators {want}")
    return found[0]


def signature(f: ast.FunctionDef) -> dict:
    a = f.args
    pos = [x.arg for x in a.posonlyargs + a.args]
    if not pos or pos[0] not in ("self", "cls"):
        raise TranslateError(f"{SRC}::{f.name}", "first parameter is not self / cls")
    return {"first": pos[0], "order": pos[1:] + [x.arg for x in a.kwonlyargs], "vararg": a.vararg.arg if a.vararg else None,
            "kwarg": a.kwarg.arg if a.kwarg else None, "defaults": {}}


def regenerate() -> dict:
    """regenerates Gen/MonitorProg.lean; same return shape as `progtx.regenerate_class`"""
    T = MonTx
    src = (REPO / T.SRC).read_text()
    tree = ast.parse(src)
    classes = class_map(tree)
    T.HOOK_BASES = check_environment(tree, classes)
    T.CLASSES = classes
    fdefs = {k: locate(classes, k, s) for k, s in T.METHODS.items()}
    sigs = {k: signature(f) for k, f in fdefs.items()}
    text = T.HEADER
    info = {}
    for k, s in T.METHODS.items():
        seg = ast.get_source_segment(src, fdefs[k]) or ""
        sha = hashlib.sha256(seg.encode()).hexdigest()[:16]
        dec = f" (`@{s['decorator']}`)" if s.get("decorator") else ""
        text += (f"\n/-- from `{T.SRC}` :: `{s['cls']}.{s['py']}`{dec} (sha256 of source segment {sha}) -/\n"
                 + T(k, fdefs[k], sigs).emit())
        info[k] = sha
    text += f"\nend {T.NAMESPACE}\n"
    p = GEN / T.OUT
    changed = not p.exists() or p.read_text() != text
    if changed:
        p.write_text(text)
    return {"functions": info, "rewritten": changed}


if __name__ == "__main__":
    print(json.dumps(regenerate(), indent=1))
