"""Statement-level translator, neuron classes (DESIGN §12.5, property C03): the WHOLE BODIES of `forward`, `clear`
and `_integrate_v` of the eight neuron classes — `LIF`, `ALIF`, `GLIF1`, `GLIF2` (`inferno/neural/neurons/linear.py`),
`QIF`, `Izhikevich`, `EIF`, `AdEx` (`neurons/nonlinear.py`) — and of the state mixins (`neurons/mixins.py`):
`VoltageMixin.voltage`, `RefractoryMixin.refrac`, `AdaptiveThresholdMixin.threshold_adaptation`,
`AdaptiveCurrentMixin.current_adaptation` (getters and setters) and `SpikeRefractoryMixin.spike`
→ Lean programs over the object `Neuron` (`Gen/NeuronPrelude.lean`), regenerated on every run as
`Gen/NeuronProg.lean` (core Lean only, Float flavour, executable).

What is kept from the source, statement by statement and in SOURCE ORDER: the thresholding call with every
argument (which kernel, `refracs=self.refrac`, `dynamics=self._integrate_v` — the receiver's own method —,
`voltages=(self.voltage if refrac_lock else None)`, the adapted threshold `nf.apply_adaptive_thresholds(...)` / the
adapted input `nf.apply_adaptive_currents(...)` evaluated BEFORE thresholding, which attribute is which keyword), the
tuple unpacking, the write-back `self.voltage = voltages; self.refrac = refracs` through the property setters, the
condition `adapt or (adapt is None and self.training)`, the adaptation kernel call (reading `self.refrac` AFTER the
write-back, `1 / self.rc_adaptation` of `GLIF2`), the assignment through the adaptation setter with its shape test
`value.shape[1:] == self.<x>_.shape` and the batch reduction `self.__batchreduce(value, 0)`, the returned spikes;
`clear`: `torch.full_like(self.voltage, self.rest_v)`, `torch.zeros_like(self.refrac)`, `if not keep_adaptations:`;
`spike`: `self.refrac == getattr(self, self.__absrefrac_attr)`.  The element-wise kernels (`nf.…`) are NOT
re-translated: calls go to the generated `Gen/NeuronDynamicsF.lean` / `Gen/NeuronAdaptationF.lean`, arguments bound
to the kernel's parameters by NAME, the parameter order read from the kernel's source and checked against
`translate_spec`.

Python dispatches on the class of `self`: `GLIF1` is not a subclass of `LIF` but calls `LIF.forward(self, …)`,
`LIF._integrate_v(self, …)`, `LIF.clear(self, …)`, so those bodies are regenerated once more with receiver `GLIF1`
(`GLIF1__LIF_forward` …: its `self._integrate_v` is `GLIF1._integrate_v`).  Generated name: `<Receiver>_<method>` when
the receiver class defines the method itself, `<Receiver>__<DefiningClass>_<method>` otherwise, `<Mixin>_<name>` for
the members of the mixins (generated once: the translator checks that EVERY neuron class with that mixin resolves
the names used in the body to the same definitions), `_setter` for a property setter.  Names are resolved along the
C3 linearisation of the classes defined in the source files (`neurons/linear.py`, `neurons/nonlinear.py`,
`neurons/mixins.py`, and — untranslated, a hit is refused — `neural/base.py`, `neural/mixins.py`); other bases
(`torch.nn.Module`, `ABC`) are assumed not to define the names used.  An attribute that is not a member is looked up
among the attributes the CONSTRUCTOR CHAIN of the receiver class sets (`self.x = argtest.…(…, float, …)` /
`float(…)`: a Python float; `register_buffer("x", torch.tensor(…))`: a `(k,)` buffer; `ShapedTensor.create(self,
"x_", data, …, live=False)`: a tensor whose `.value` setter is a plain store — `live=False` is REQUIRED;
`register_buffer("x_", data)` of a mixin: an adaptation tensor; `self.__batchreduce = batch_reduction if
batch_reduction else torch.mean`; `self.__absrefrac_attr = absrefrac`); `self.training` is `nn.Module`'s.  The string
each class passes as `absrefrac` to `SpikeRefractoryMixin.__init__` is extracted as the constant `<Class>_absrefrac`.

Three modes: `pure` (a getter or `_integrate_v` whose body is one `return` of an expression without raising
primitive: a plain function, so that the bound method `self._integrate_v` can be handed to the kernel as
`dynamics`), `reader` (`spike`: `Except Err ρ`), `state` (setters, `clear`, `forward`: `Except Err (Neuron × ρ)`).
Tensors are followed at ONE element with batch size 1 (see the prelude); `**kwargs` that a method only accepts or
hands on to another translated method are dropped (a body that reads them is refused).
`Props/C03GlueProg.lean` proves the generated programs equal to `NeuronF.step` / `NeuronF.clear`
(`Model/NeuronF.lean`).  Anything outside this sub-language raises `TranslateError` naming the node.
Methods are located by class / method name / decorator, never by line number.
"""
from __future__ import annotations

import ast
import hashlib
import json

import progtx
import translate_spec
from progtx import Tx
from translate import GEN, REPO, TranslateError, lname

LINEAR = "inferno/neural/neurons/linear.py"
NONLINEAR = "inferno/neural/neurons/nonlinear.py"
MIXINS = "inferno/neural/neurons/mixins.py"
UNTRANSLATED = ["inferno/neural/base.py", "inferno/neural/mixins.py"]
FILES = [LINEAR, NONLINEAR, MIXINS] + UNTRANSLATED
FUNCTIONAL_INIT = "inferno/neural/functional/__init__.py"

NEURONS = {"LIF": LINEAR, "ALIF": LINEAR, "GLIF1": LINEAR, "GLIF2": LINEAR,
           "QIF": NONLINEAR, "Izhikevich": NONLINEAR, "EIF": NONLINEAR, "AdEx": NONLINEAR}
MIXIN_CLASSES = ["VoltageMixin", "RefractoryMixin", "SpikeRefractoryMixin", "AdaptiveThresholdMixin",
                 "AdaptiveCurrentMixin"]

# kinds: real bool vec adapt optbool unit str shape fn reducer none "opt real" "tuple:<k>,<k>,…" call:<k>
LEAN_TY = {"real": "Float", "bool": "Bool", "vec": "List Float", "adapt": "ATensor", "optbool": "Option Bool",
           "unit": "Unit", "str": "String"}

# fields of the Lean structure `Neuron` (Gen/NeuronPrelude.lean): attribute -> kind
FIELDS = {
    **{a: "real" for a in ("step_time", "rest_v", "reset_v", "thresh_v", "thresh_eq_v", "refrac_t", "time_constant",
                           "tc_membrane", "resistance", "crit_v", "affinity", "rheobase_v", "sharpness", "reset_v_add",
                           "reset_v_mul")},
    **{a: "vec" for a in ("tc_adaptation", "rc_adaptation", "adapt_increment", "adapt_vc_coupling")},
    "voltage_": "shaped", "refrac_": "shaped", "threshold_adaptation_": "adapt", "current_adaptation_": "adapt",
    "SpikeRefractoryMixin__absrefrac_attr": "str", "AdaptiveThresholdMixin__batchreduce": "reducer",
    "AdaptiveCurrentMixin__batchreduce": "reducer",
}

# the element-wise kernels (generated by translate.py): name -> (Lean module, source file, return kind)
KERNEL_RET = {
    "voltage_thresholding_constant": "tuple:bool,real,real", "voltage_thresholding_linear": "tuple:bool,real,real",
    "voltage_integration_linear": "real", "voltage_integration_quadratic": "real",
    "voltage_integration_exponential": "real",
    "adaptive_currents_linear": "vec", "adaptive_thresholds_linear_voltage": "vec",
    "adaptive_thresholds_linear_spike": "vec", "apply_adaptive_currents": "real", "apply_adaptive_thresholds": "real",
}
KERNEL_KIND = {"real": "real", "bool": "bool", "vec": "vec", "fn": "fn", "opt real": "opt real"}


def _m(cls, py, mode, params, ret, recv=None, decorator=None, kwarg=None):
    return {"cls": cls, "py": py, "mode": mode, "params": params, "ret": ret, "recv": recv, "decorator": decorator,
            "kwarg": kwarg}


def _methods() -> dict:
    """functions in emission order (callees first); key = name of the generated definition"""
    out = {}
    for cls, prop, kind in (("VoltageMixin", "voltage", "real"), ("RefractoryMixin", "refrac", "real")):
        out[f"{cls}_{prop}"] = _m(cls, prop, "pure", {}, kind, decorator="property")
        out[f"{cls}_{prop}_setter"] = _m(cls, prop, "state", {"value": kind}, "unit", decorator=f"{prop}.setter")
    out["SpikeRefractoryMixin_spike"] = _m("SpikeRefractoryMixin", "spike", "reader", {}, "bool", decorator="property")
    for cls, prop in (("AdaptiveThresholdMixin", "threshold_adaptation"), ("AdaptiveCurrentMixin", "current_adaptation")):
        out[f"{cls}_{prop}"] = _m(cls, prop, "pure", {}, "adapt", decorator="property")
        out[f"{cls}_{prop}_setter"] = _m(cls, prop, "state", {"value": "adapt"}, "unit", decorator=f"{prop}.setter")
    plain = {"inputs": "real", "refrac_lock": "bool"}
    adaptive = {"inputs": "real", "adapt": "optbool", "refrac_lock": "bool"}
    for cls in NEURONS:
        ad = cls in ("ALIF", "GLIF2", "Izhikevich", "AdEx")
        out[f"{cls}_absrefrac"] = {"const": "absrefrac", "cls": cls}
        if cls == "GLIF1":
            out["GLIF1__LIF__integrate_v"] = _m("LIF", "_integrate_v", "pure", {"masked_inputs": "real"}, "real", recv="GLIF1")
            out["GLIF1__integrate_v"] = _m("GLIF1", "_integrate_v", "pure", {"masked_inputs": "real"}, "real", recv="GLIF1")
            out["GLIF1__LIF_clear"] = _m("LIF", "clear", "state", {}, "unit", recv="GLIF1", kwarg="kwargs")
            out["GLIF1_clear"] = _m("GLIF1", "clear", "state", {}, "unit", recv="GLIF1", kwarg="kwargs")
            out["GLIF1__LIF_forward"] = _m("LIF", "forward", "state", plain, "bool", recv="GLIF1", kwarg="kwargs")
            out["GLIF1_forward"] = _m("GLIF1", "forward", "state", plain, "bool", recv="GLIF1", kwarg="kwargs")
            continue
        out[f"{cls}__integrate_v"] = _m(cls, "_integrate_v", "pure", {"masked_inputs": "real"}, "real", recv=cls)
        out[f"{cls}_clear"] = _m(cls, "clear", "state", {"keep_adaptations": "bool"} if ad else {}, "unit", recv=cls,
                                 kwarg="kwargs")
        out[f"{cls}_forward"] = _m(cls, "forward", "state", adaptive if ad else plain, "bool", recv=cls, kwarg="kwargs")
    return out


METHODS = _methods()

HEADER = """import InfernoVerif.Gen.NeuronPrelude
import InfernoVerif.Gen.NeuronDynamicsF
import InfernoVerif.Gen.NeuronAdaptationF
/-! GENERATED by harness/progtx_neuron.py from inferno/neural/neurons/{linear,nonlinear,mixins}.py (`forward`,
`clear`, `_integrate_v` of the eight neuron classes; the voltage / refrac / spike / adaptation members of the
mixins; the `absrefrac` string of each constructor) — do not edit.
Whole bodies over the object `Neuron` (one element, batch size 1); vocabulary: Gen/NeuronPrelude.lean; the
element-wise kernels are Gen/NeuronDynamicsF.lean, Gen/NeuronAdaptationF.lean. -/
set_option linter.unusedVariables false
namespace InfernoVerif.Gen.NeuronProg
open InfernoVerif.Gen InfernoVerif.Gen.NeuronPrelude
"""


# ---------------------------------------------------------------------------------------------- source model
class World:
    """the parsed source files: classes, linearisations, constructor attributes, kernel signatures"""

    def __init__(self):
        self.src = {f: (REPO / f).read_text() for f in FILES}
        self.tree = {f: ast.parse(s) for f, s in self.src.items()}
        self.classes: dict[str, tuple[str, ast.ClassDef]] = {}
        for f in FILES:
            for n in self.tree[f].body:
                if isinstance(n, ast.ClassDef):
                    if n.name in self.classes:
                        raise TranslateError(f, f"class {n.name} is also defined in {self.classes[n.name][0]}")
                    self.classes[n.name] = (f, n)
        for c, f in list(NEURONS.items()) + [(m, MIXINS) for m in MIXIN_CLASSES]:
            if c not in self.classes or self.classes[c][0] != f:
                raise TranslateError(f, f"class {c} not found")
        self._mro: dict[str, list[str]] = {}
        self._attrs: dict[str, dict] = {}
        self.kernels = self.load_kernels()
        for f in (LINEAR, NONLINEAR):
            ok = any(isinstance(n, ast.ImportFrom) and n.level == 2 and n.module is None
                     and any(a.name == "functional" and a.asname == "nf" for a in n.names) for n in self.tree[f].body)
            if not ok:
                raise TranslateError(f, "`from .. import functional as nf` not found")

    # ---- kernels
    def load_kernels(self) -> dict:
        exported = {}
        for n in ast.parse((REPO / FUNCTIONAL_INIT).read_text()).body:
            if isinstance(n, ast.ImportFrom) and n.level == 1:
                for a in n.names:
                    exported[a.asname or a.name] = (n.module, a.name)
        out = {}
        for mod, lean in (("NeuronDynamics", "NeuronDynamicsF"), ("NeuronAdaptation", "NeuronAdaptationF")):
            spec = translate_spec.SPEC[mod]
            tree = ast.parse((REPO / spec["file"]).read_text())
            stem = spec["file"].rsplit("/", 1)[1][:-3]
            for name, fs in spec["functions"].items():
                where = f"{spec['file']}::{name}"
                f = next((n for n in tree.body if isinstance(n, ast.FunctionDef) and n.name == name), None)
                if f is None:
                    raise TranslateError(where, "kernel not found")
                if exported.get(name) != (stem, name):
                    raise TranslateError(FUNCTIONAL_INIT, f"`nf.{name}` is not `{stem}.{name}`")
                a = f.args
                if a.vararg or a.kwarg or a.posonlyargs:
                    raise TranslateError(where, "unsupported kernel signature")
                pos = [x.arg for x in a.args]
                order = pos + [x.arg for x in a.kwonlyargs]
                if order != list(fs["params"]):
                    raise TranslateError(where, f"kernel signature changed: {order}")
                if name not in KERNEL_RET:
                    raise TranslateError(where, "kernel without a declared return kind")
                defaults = dict(zip(pos[len(pos) - len(a.defaults):], a.defaults))
                defaults.update({x.arg: dflt for x, dflt in zip(a.kwonlyargs, a.kw_defaults) if dflt is not None})
                out[name] = {"lean": f"{lean}.{name}", "params": dict(fs["params"]), "ret": KERNEL_RET[name],
                             "npos": len(pos), "defaults": defaults}
        return out

    # ---- classes
    def known_bases(self, cls: str) -> list[str]:
        return [b.id for b in self.classes[cls][1].bases if isinstance(b, ast.Name) and b.id in self.classes]

    def mro(self, cls: str) -> list[str]:
        """C3 linearisation over the classes defined in the source files"""
        if cls in self._mro:
            return self._mro[cls]
        bases = self.known_bases(cls)
        seqs = [list(self.mro(b)) for b in bases] + [list(bases)]
        out = [cls]
        seqs = [s for s in seqs if s]
        while seqs:
            head = next((s[0] for s in seqs if not any(s[0] in t[1:] for t in seqs)), None)
            if head is None:
                raise TranslateError(self.classes[cls][0], f"class {cls}: inconsistent method resolution order")
            out.append(head)
            seqs = [[x for x in s if x != head] for s in seqs]
            seqs = [s for s in seqs if s]
        self._mro[cls] = out
        return out

    def members(self, cls: str, name: str) -> list[ast.FunctionDef] | None:
        """definitions of `name` in the body of `cls` (None: not defined there; []: a class attribute)"""
        body = self.classes[cls][1].body
        fs = [n for n in body if isinstance(n, ast.FunctionDef) and n.name == name]
        if fs:
            return fs
        for n in body:
            tg = n.targets if isinstance(n, ast.Assign) else [n.target] if isinstance(n, ast.AnnAssign) else []
            if any(isinstance(t, ast.Name) and t.id == name for t in tg):
                return []
        return None

    def resolve(self, recv: str, name: str):
        """first class along the linearisation of `recv` that defines `name` -> (class, definitions) or None"""
        for c in self.mro(recv):
            m = self.members(c, name)
            if m is not None:
                return c, m
        return None

    # ---- constructor attributes
    def attrs(self, cls: str) -> dict:
        """attributes set by the constructor chain of `cls`: name -> {"kind", "const", "node", "file"}"""
        if cls not in self._attrs:
            out: dict = {}
            self.ctor(cls, {}, out, [])
            self._attrs[cls] = out
        return self._attrs[cls]

    def ctor(self, cls: str, bound: dict, out: dict, stack: list):
        if cls in stack:
            raise TranslateError(self.classes[cls][0], f"recursive constructor chain through {cls}")
        f, node = self.classes[cls]
        inits = self.members(cls, "__init__")
        if not inits or len(inits) != 1:
            raise TranslateError(f"{f}::{cls}", "no unique __init__")
        init = inits[0]
        params = [a.arg for a in init.args.posonlyargs + init.args.args + init.args.kwonlyargs][1:]
        where = f"{f}::{cls}.__init__"

        def flat(stmts):
            for s in stmts:
                yield s
                for fld in ("body", "orelse", "finalbody"):
                    sub = getattr(s, fld, None)
                    if isinstance(sub, list) and not isinstance(s, (ast.FunctionDef, ast.ClassDef)):
                        yield from flat(sub)

        def selfattr(t):
            if isinstance(t, ast.Attribute) and isinstance(t.value, ast.Name) and t.value.id == "self":
                a = t.attr
                return f"{cls}{a}" if a.startswith("__") and not a.endswith("__") else a
            return None

        for s in flat(init.body):
            if isinstance(s, ast.Assign) and len(s.targets) == 1 and selfattr(s.targets[0]):
                a, v = selfattr(s.targets[0]), s.value
                kind, const = "other", None
                if isinstance(v, ast.Call) and ast.unparse(v.func).startswith("argtest.") \
                        and any(isinstance(x, ast.Name) and x.id == "float" for x in v.args):
                    kind = "real"
                elif isinstance(v, ast.Call) and ast.unparse(v.func) == "float" and len(v.args) == 1:
                    kind = "real"
                elif ast.unparse(v) == "batch_reduction if batch_reduction else torch.mean" and "batch_reduction" in params:
                    kind = "reducer"
                elif isinstance(v, ast.Name) and v.id in params and a.endswith("__absrefrac_attr"):
                    kind = "str"
                    b = bound.get(v.id)
                    const = b.value if isinstance(b, ast.Constant) and isinstance(b.value, str) else None
                out[a] = {"kind": kind, "const": const, "node": bound.get("__call__"), "file": bound.get("__file__")}
            c = s.value if isinstance(s, (ast.Expr, ast.Assign)) and isinstance(s.value, ast.Call) else None
            if c is None:
                continue
            ftxt = ast.unparse(c.func)
            if ftxt == "self.register_buffer" and c.args and isinstance(c.args[0], ast.Constant) and len(c.args) >= 2:
                v = c.args[1]
                if isinstance(v, ast.Call) and ast.unparse(v.func) == "torch.tensor":
                    kind = "vec"
                elif isinstance(v, ast.Name) and v.id in params and cls in MIXIN_CLASSES:
                    kind = "adapt"
                else:
                    kind = "other"
                out[c.args[0].value] = {"kind": kind, "const": None}
            elif ftxt == "ShapedTensor.create" and len(c.args) >= 2 and ast.unparse(c.args[0]) == "self" \
                    and isinstance(c.args[1], ast.Constant):
                kw = {k.arg: k.value for k in c.keywords}
                live = kw.get("live")
                plain = isinstance(live, ast.Constant) and live.value is False
                out[c.args[1].value] = {"kind": "shaped" if plain else "shaped-live", "const": None}
            elif ftxt.endswith(".__init__") and isinstance(c.func.value, ast.Name) and c.args \
                    and ast.unparse(c.args[0]) == "self":
                k = c.func.value.id
                if k in NEURONS or k in MIXIN_CLASSES:
                    sub = self.members(k, "__init__")
                    if not sub or len(sub) != 1:
                        raise TranslateError(where, f"{k}.__init__ not found")
                    a = sub[0].args
                    if a.vararg or a.kwarg:
                        raise TranslateError(where, f"unsupported signature of {k}.__init__")
                    pos = [x.arg for x in a.posonlyargs + a.args][1:]
                    names = pos + [x.arg for x in a.kwonlyargs]
                    b = {}
                    for i, x in enumerate(c.args[1:]):
                        if isinstance(x, ast.Starred) or i >= len(pos):
                            raise TranslateError(where, f"unsupported arguments of {k}.__init__")
                        b[pos[i]] = x
                    for kw in c.keywords:
                        if kw.arg is None or kw.arg not in names:
                            raise TranslateError(where, f"unsupported keyword arguments of {k}.__init__")
                        b[kw.arg] = kw.value
                    # a parameter of this constructor handed on by name stands for what this constructor was given
                    b = {p: (bound[x.id] if isinstance(x, ast.Name) and x.id in params and x.id in bound else x)
                         for p, x in b.items()}
                    b["__call__"], b["__file__"] = c, f
                    self.ctor(k, b, out, stack + [cls])


W: World | None = None


def key_of(recv: str | None, defcls: str, name: str, setter: bool = False) -> str:
    if defcls in MIXIN_CLASSES:
        base = f"{defcls}_{name}"
    elif defcls == recv:
        base = f"{recv}_{name}"
    else:
        base = f"{recv}__{defcls}_{name}"
    return base + ("_setter" if setter else "")


def decorators(f: ast.FunctionDef) -> list[str]:
    return [ast.unparse(d) for d in f.decorator_list]


# ---------------------------------------------------------------------------------------------- translator
class NeuronTx(Tx):
    SRC = LINEAR
    CLS = "LIF"
    METHODS = METHODS
    LEAN_TY = LEAN_TY
    STATE_TY = "Neuron"
    DROPPED_PARAMS: set = set()
    OUT = "NeuronProg.lean"
    NAMESPACE = "InfernoVerif.Gen.NeuronProg"
    HEADER = HEADER

    def __init__(self, name: str, fdef: ast.FunctionDef, sigs: dict):
        super().__init__(name, fdef, sigs)
        self.CLS = self.spec["cls"]
        self.SRC = W.classes[self.CLS][0]
        self.mode = self.spec["mode"]
        if self.spec["recv"] is not None:
            self.recvs = [self.spec["recv"]]
        else:
            self.recvs = [c for c in NEURONS if self.CLS in W.mro(c)]
            if not self.recvs:
                raise TranslateError(f"{self.SRC}::{self.CLS}", "no neuron class has this mixin")

    def err(self, node, msg):
        where = f"{self.SRC}::{self.CLS}.{self.spec['py']}:{getattr(node, 'lineno', '?')}"
        if self.spec["recv"] not in (None, self.CLS):
            where += f" (receiver {self.spec['recv']})"
        raise TranslateError(where, f"{msg}: {ast.unparse(node)[:140] if isinstance(node, ast.AST) else node}")

    # ------------------------------------------------------------------ name resolution
    def self_attr(self, n) -> str | None:
        if isinstance(n, ast.Attribute) and isinstance(n.value, ast.Name) and n.value.id == "self":
            return n.attr
        return None

    def is_private(self, a: str) -> bool:
        return a.startswith("__") and not a.endswith("__")

    def member(self, node, name: str, start: str | None = None):
        """`self.<name>` (or `<start>.<name>` applied to self) as a member of the class hierarchy
        -> (defining class, definitions), the same for every receiver; None when no class defines it"""
        found = set()
        res = None
        for r in self.recvs:
            if start is not None:
                m = W.members(start, name)
                res = (start, m) if m is not None else None
                if res is None:
                    self.err(node, f"{start} does not define {name}")
            else:
                res = W.resolve(r, name)
            found.add(res[0] if res else None)
        if len(found) != 1:
            self.err(node, f"{name} resolves differently for the receivers {self.recvs}: {sorted(map(str, found))}")
        if res is None:
            return None
        if res[0] not in NEURONS and res[0] not in MIXIN_CLASSES:
            self.err(node, f"{name} resolves to {res[0]}.{name}, which is not translated")
        if not res[1]:
            self.err(node, f"{name} is a class attribute of {res[0]}")
        return res

    def key(self, node, defcls: str, name: str, setter: bool = False) -> str:
        keys = {key_of(r, defcls, name, setter) for r in self.recvs}
        if len(keys) != 1:
            self.err(node, f"{defcls}.{name} depends on the receiver class ({self.recvs})")
        (k,) = keys
        if k not in self.METHODS or "const" in self.METHODS[k]:
            self.err(node, f"{defcls}.{name} (as {k}) is not translated")
        spec = self.METHODS[k]
        if spec["cls"] != defcls or spec["py"] != name:
            self.err(node, f"{k} is declared for {spec['cls']}.{spec['py']}")
        return k

    def instance_attr(self, node, a: str) -> str:
        """kind of the attribute `a` set by the constructor chain of every receiver"""
        kinds = set()
        for r in self.recvs:
            at = W.attrs(r).get(a)
            kinds.add(at["kind"] if at else None)
        if len(kinds) != 1:
            self.err(node, f"attribute {a} differs between the receivers {self.recvs}: {sorted(map(str, kinds))}")
        (k,) = kinds
        if k is None:
            self.err(node, f"attribute {a} is not set by the constructor chain of {self.recvs}")
        if k == "shaped-live":
            self.err(node, f"{a} is a ShapedTensor that is not created with live=False")
        if k == "other" or FIELDS.get(a) != k:
            self.err(node, f"attribute {a} (kind {k}) is not in the vocabulary")
        return k

    def call_member(self, node, k: str, args: list[str]) -> tuple[str, str]:
        """a call of the generated definition `k` on `self`"""
        spec = self.METHODS[k]
        txt = f"{k} self{''.join(' ' + a for a in args)}"
        if spec["mode"] == "pure":
            return f"({txt})", spec["ret"]
        if self.mode == "pure":
            self.err(node, f"{k} is not pure")
        if spec["mode"] == "reader":
            return f"(← {txt})", spec["ret"]
        if self.mode != "state":
            self.err(node, f"{k} changes the state")
        return f"(← {txt})", "call:" + spec["ret"]

    # ------------------------------------------------------------------ expressions
    def ex(self, n, env):
        if isinstance(n, ast.Name) and n.id == "self":
            self.err(n, "`self` used as a value")
        # self.<x>_.value
        if isinstance(n, ast.Attribute) and n.attr == "value" and self.self_attr(n.value) is not None:
            a = n.value.attr
            if self.member(n, a) is None and self.instance_attr(n, a) == "shaped":
                return f"self.{a}", "real"
            self.err(n, "unsupported attribute")
        a = self.self_attr(n)
        if a is not None:
            if self.is_private(a):
                m = f"{self.CLS}{a}"
                k = self.instance_attr(n, m)
                if k == "str":
                    return f"self.{m}", "str"
                self.err(n, f"private attribute of kind {k} used as a value")
            res = self.member(n, a)
            if res is not None:
                defcls, defs = res
                k = self.key(n, defcls, a)
                spec = self.METHODS[k]
                getter = any(decorators(f) == ["property"] for f in defs)
                if getter != (spec["decorator"] == "property"):
                    self.err(n, f"{defcls}.{a}: property / method mismatch")
                if getter:
                    v, kind = self.call_member(n, k, [])
                    return (f"{v}.2", kind[5:]) if kind.startswith("call:") else (v, kind)
                # a bound method as a value: only a pure method of one `real` parameter
                if spec["mode"] == "pure" and list(spec["params"].values()) == ["real"] and spec["ret"] == "real":
                    return f"({k} self)", "fn"
                self.err(n, "bound method used as a value")
            if a == "training" and all(a not in W.attrs(r) for r in self.recvs):
                return "self.training", "bool"
            k = self.instance_attr(n, a)
            if k in ("real", "vec", "adapt"):
                return f"self.{a}", k
            self.err(n, f"attribute of kind {k} used as a value")
        if isinstance(n, ast.Attribute) and n.attr == "shape":
            v, k = self.ex(n.value, env)
            if k == "adapt":
                return f"{v}.shape", "shape"
            self.err(n, f"`.shape` of kind {k}")
        if isinstance(n, ast.Subscript):
            v, k = self.ex(n.value, env)
            sl = n.slice
            if k == "shape" and isinstance(sl, ast.Slice) and sl.step is None and sl.upper is None \
                    and isinstance(sl.lower, ast.Constant) and sl.lower.value == 1:
                return f"(shapeTail {v})", "shape"
            self.err(n, f"unsupported subscript on kind {k}")
        if isinstance(n, ast.BoolOp):
            parts = [self.truth(x, env) for x in n.values]
            if any("←" in p for p in parts[1:]):
                self.err(n, "operand after the first of and/or is not pure (short-circuit would be lost)")
            return "(" + (" && " if isinstance(n.op, ast.And) else " || ").join(parts) + ")", "bool"
        if isinstance(n, ast.UnaryOp) and isinstance(n.op, ast.Not):
            return f"(!{self.truth(n.operand, env)})", "bool"
        if isinstance(n, ast.Compare) and len(n.ops) == 1:
            op = n.ops[0]
            a_, ka = self.ex(n.left, env)
            b_, kb = self.ex(n.comparators[0], env)
            if isinstance(op, (ast.Is, ast.IsNot)) and kb == "none" and ka == "optbool":
                return (f"{a_}.isNone" if isinstance(op, ast.Is) else f"{a_}.isSome"), "bool"
            if isinstance(op, ast.Eq) and ka == "real" and kb == "real":
                return f"({a_} == {b_})", "bool"                       # element-wise `==` of a tensor and a float
            if isinstance(op, ast.Eq) and ka == "shape" and kb == "shape":
                return f"(decide ({a_} = {b_}))", "bool"
            self.err(n, f"unsupported comparison on kinds {ka}, {kb}")
        if isinstance(n, ast.BinOp):
            a_, ka = self.ex(n.left, env)
            b_, kb = self.ex(n.right, env)
            if isinstance(n.op, ast.Div) and isinstance(n.left, ast.Constant) and type(n.left.value) is int and kb == "vec":
                return f"(List.map (fun b_ => (({n.left.value} : Float) / b_)) {b_})", "vec"
            self.err(n, f"unsupported arithmetic on kinds {ka}, {kb}")
        if isinstance(n, ast.IfExp):
            c = self.truth(n.test, env)
            a_, ka = self.ex(n.body, env)
            b_, kb = self.ex(n.orelse, env)
            if "←" in c + a_ + b_:
                self.err(n, "conditional expression with a raising operand")
            if ka == "real" and kb == "none":
                return f"(if {c} then some {a_} else none)", "opt real"
            self.err(n, f"unsupported conditional expression on kinds {ka}, {kb}")
        if isinstance(n, (ast.Constant, ast.Name, ast.Call)):
            return super().ex(n, env)
        self.err(n, "unsupported expression")

    def truth(self, n, env) -> str:
        v, k = self.ex(n, env)
        if k == "bool":
            return v
        if k == "optbool":
            return f"(optTruth {v})"
        self.err(n, f"truth value of kind {k}")

    def class_call(self, n: ast.Call):
        """`<Class>.<m>(self, …)` -> (class, method name, remaining argument nodes) or None"""
        f = n.func
        if isinstance(f, ast.Attribute) and isinstance(f.value, ast.Name) and f.value.id in W.classes \
                and n.args and ast.unparse(n.args[0]) == "self":
            return f.value.id, f.attr, list(n.args[1:])
        return None

    def bind(self, n: ast.Call, k: str, args: list, env) -> list[str]:
        """arguments of a call of the translated method `k`, in the order of its parameters"""
        spec, sig = self.METHODS[k], self.sigs[k]
        bound = {}
        for i, x in enumerate(args):
            if isinstance(x, ast.Starred) or i >= len(sig["pos"]):
                self.err(n, "unsupported positional arguments")
            bound[sig["pos"][i]] = x
        for kw in n.keywords:
            if kw.arg is None:
                # **kwargs: only the caller's own dropped **kwargs handed on to a callee that drops them too
                if not (isinstance(kw.value, ast.Name) and kw.value.id == self.spec["kwarg"] and spec["kwarg"]):
                    self.err(n, "unsupported ** argument")
                continue
            if kw.arg not in sig["order"] or kw.arg in bound:
                self.err(n, f"unsupported keyword argument {kw.arg}")
            bound[kw.arg] = kw.value
        out = []
        for p in sig["order"]:
            node = bound.get(p, sig["defaults"].get(p))
            if node is None:
                self.err(n, f"missing argument {p}")
            v, kind = self.ex(node, env)
            want = spec["params"][p]
            if kind == "none" and want == "optbool":
                v = "none"
            elif kind == "bool" and want == "optbool":
                v = f"(some {v})"
            elif kind != want:
                self.err(node, f"argument {p} of {k}: kind {kind}, expected {want}")
            if "←" in v:
                self.err(node, "raising argument")
            out.append(v)
        return out

    def kernel_call(self, n: ast.Call, name: str, env):
        kern = W.kernels.get(name)
        if kern is None:
            self.err(n, f"`nf.{name}` is not a generated kernel")
        order = list(kern["params"])
        if len(n.args) > kern["npos"]:
            self.err(n, f"more than {kern['npos']} positional arguments")
        given = self.kwargs(n, order)
        if set(given) - set(order):
            self.err(n, f"unknown keyword arguments {sorted(set(given) - set(order))}")
        args, lifted = [], None
        for p in order:
            node = given.get(p, kern["defaults"].get(p))
            if node is None:
                self.err(n, f"missing argument {p}")
            want = KERNEL_KIND.get(kern["params"][p])
            if want is None:
                self.err(n, f"kernel parameter {p} of kind {kern['params'][p]}")
            v, k = self.ex(node, env)
            if "←" in v:
                self.err(node, "raising argument of a kernel")
            if want == "vec" and k == "adapt":
                if p == "adaptations":
                    lifted = v
                v = f"{v}.elem"
            elif want == "opt real" and k == "none":
                v = "none"
            elif want == "opt real" and k == "real":
                v = f"(some {v})"
            elif k != want:
                self.err(node, f"argument {p} of {name}: kind {k}, expected {want}")
            args.append(v)
        txt = f"({kern['lean']} {' '.join(args)})"
        if kern["ret"] == "vec" and lifted is not None:
            # the stored adaptations broadcast against the batched operands (`spikes.unsqueeze(-1)`)
            return f"(ATensor.ofKernel {lifted} {txt})", "adapt"
        if kern["ret"] == "vec":
            self.err(n, "adaptation kernel applied to a bare vector")
        return txt, kern["ret"]

    def call(self, n: ast.Call, env):
        f = n.func
        ftxt = ast.unparse(f)
        if isinstance(f, ast.Attribute) and isinstance(f.value, ast.Name) and f.value.id == "nf":
            return self.kernel_call(n, f.attr, env)
        if ftxt == "torch.full_like" and len(n.args) == 2 and not n.keywords:
            (a, ka), (b, kb) = self.ex(n.args[0], env), self.ex(n.args[1], env)
            if ka == "real" and kb == "real":
                return f"(full_like {a} {b})", "real"
        if ftxt == "torch.zeros_like" and len(n.args) == 1 and not n.keywords:
            a, ka = self.ex(n.args[0], env)
            if ka == "real":
                return f"(zeros_like {a})", "real"
            if ka == "adapt":
                return f"(ATensor.zeros_like {a})", "adapt"
        if ftxt == "getattr" and len(n.args) == 2 and not n.keywords and ast.unparse(n.args[0]) == "self":
            a, ka = self.ex(n.args[1], env)
            if ka == "str":
                if self.mode == "pure":
                    self.err(n, "getattr in a pure method")
                return f"(← getattrFloat self {a})", "real"
        a = self.self_attr(f)
        if a is not None and self.is_private(a):
            m = f"{self.CLS}{a}"
            if self.instance_attr(n, m) == "reducer" and len(n.args) == 2 and not n.keywords \
                    and isinstance(n.args[1], ast.Constant) and n.args[1].value == 0 and type(n.args[1].value) is int:
                v, k = self.ex(n.args[0], env)
                if k == "adapt":
                    return f"(batchreduce0 self.{m} {v})", "adapt"
            self.err(n, "unsupported call of a private attribute")
        cc = self.class_call(n)
        if cc is not None:
            cls, m, args = cc
            if cls not in NEURONS and cls not in MIXIN_CLASSES:
                self.err(n, f"{cls} is not translated")
            res = self.member(n, m, start=cls)
            k = self.key(n, res[0], m)
            if self.METHODS[k]["decorator"]:
                self.err(n, "call of a property")
            return self.call_member(n, k, self.bind(n, k, args, env))
        if a is not None:
            res = self.member(n, a)
            if res is None:
                self.err(n, "call of an attribute that is not a method")
            k = self.key(n, res[0], a)
            if self.METHODS[k]["decorator"]:
                self.err(n, "call of a property")
            return self.call_member(n, k, self.bind(n, k, list(n.args), env))
        self.err(n, "unsupported call")

    # ------------------------------------------------------------------ statements
    def block(self, stmts, env, alias, d, cont) -> str:
        if not stmts:
            return cont(env, alias, d)
        s = stmts[0]
        I = self.ind(d)
        if isinstance(s, (ast.Assert, ast.With, ast.For, ast.While, ast.Try)):
            self.err(s, "unsupported statement")
        if isinstance(s, ast.Return) and self.mode == "reader":
            if s.value is None:
                self.err(s, "bare return")
            v, k = self.ex(s.value, env)
            if k != self.spec["ret"]:
                self.err(s, f"returns kind {k}, expected {self.spec['ret']}")
            return f"{I}pure {v}\n"
        return super().block(stmts, env, alias, d, cont)

    def need_state(self, node):
        if self.mode != "state":
            self.err(node, "state change in a method that only reads")

    def call_stmt(self, c: ast.Call, env, alias, d, nxt) -> str:
        I = self.ind(d)
        v, k = self.call(c, env)
        if not k.startswith("call:"):
            self.err(c, "call statement without effect on the state")
        self.need_state(c)
        return f"{I}let self := {v}.1\n" + nxt(env, alias, d)

    def assign(self, s: ast.Assign, env, alias, d, nxt) -> str:
        I = self.ind(d)
        t = s.targets[0]
        # self.<x>_.value = v
        if isinstance(t, ast.Attribute) and t.attr == "value" and self.self_attr(t.value) is not None:
            a = t.value.attr
            self.need_state(s)
            if self.member(s, a) is None and self.instance_attr(s, a) == "shaped":
                v, k = self.ex(s.value, env)
                if k != "real" or "←" in v:
                    self.err(s, f"{a}.value assigned a value of kind {k}")
                return f"{I}let self := {{ self with {a} := {v} }}\n" + nxt(env, alias, d)
            self.err(s, "unsupported assignment")
        a = self.self_attr(t)
        if a is not None:
            self.need_state(s)
            if self.is_private(a):
                self.err(s, "assignment to a private attribute")
            res = self.member(s, a)
            if res is not None:
                defcls, defs = res
                if not any(decorators(f) == [f"{a}.setter"] for f in defs):
                    self.err(s, f"{defcls}.{a} has no setter")
                k = self.key(s, defcls, a, setter=True)
                (want,) = self.METHODS[k]["params"].values()
                v, kind = self.ex(s.value, env)
                if kind != want or "←" in v:
                    self.err(s, f"property {a} assigned a value of kind {kind}")
                return f"{I}let self := (← {k} self {v}).1\n" + nxt(env, alias, d)
            if self.instance_attr(s, a) == "adapt":
                v, kind = self.ex(s.value, env)
                if kind != "adapt" or "←" in v:
                    self.err(s, f"buffer {a} assigned a value of kind {kind}")
                return f"{I}let self := {{ self with {a} := {v} }}\n" + nxt(env, alias, d)
            self.err(s, "unsupported assignment")
        # spikes, voltages, refracs = nf.<thresholding kernel>(…)
        if isinstance(t, ast.Tuple) and all(isinstance(e, ast.Name) for e in t.elts):
            v, k = self.ex(s.value, env)
            kinds = k[6:].split(",") if k.startswith("tuple:") else []
            if len(kinds) != len(t.elts) or "←" in v:
                self.err(s, f"unpacking a value of kind {k}")
            self.fresh += 1
            r = f"r{self.fresh}_"
            out = f"{I}let {r} := {v}\n"
            env, alias = dict(env), dict(alias)
            proj = [".1"] + [".2" * i + ".1" for i in range(1, len(kinds) - 1)] + [".2" * (len(kinds) - 1)]
            for e, kk, p in zip(t.elts, kinds, proj):
                if e.id in env and env[e.id][1] != kk:
                    self.err(s, f"local {e.id} rebound with another kind")
                out += f"{I}let {lname(e.id)} := {r}{p}\n"
                env[e.id] = (lname(e.id), kk)
            return out + nxt(env, alias, d)
        if isinstance(t, ast.Name):
            v, k = self.ex(s.value, env)
            if t.id in env and env[t.id][1] != (k[5:] if k.startswith("call:") else k):
                self.err(s, f"local {t.id} rebound with another kind")
            if k in ("fn", "none", "shape", "str") or k.startswith("tuple:"):
                self.err(s, f"local of kind {k}")
            return super().assign(s, env, alias, d, nxt)
        self.err(s, "unsupported assignment")

    def if_stmt(self, s: ast.If, rest, env, alias, d, cont) -> str:
        body, orelse = list(s.body), list(s.orelse)
        if not orelse and len(body) == 1 and isinstance(body[0], ast.Assign) and isinstance(body[0].targets[0], ast.Name):
            self.err(s, "conditional rebinding of a local")
        return super().if_stmt(s, rest, env, alias, d, cont)

    def branch(self, test, body, orelse, env, alias, d, cont) -> str:
        I = self.ind(d)
        c = self.truth(test, env)
        return (f"{I}if {c} then\n" + self.block(body, env, alias, d + 1, cont)
                + f"{I}else\n" + self.block(orelse, env, alias, d + 1, cont))

    def join_if(self, s, body, orelse, rest, env, alias, d, cont) -> str:
        self.need_state(s)
        return super().join_if(s, body, orelse, rest, env, alias, d, cont)

    # ------------------------------------------------------------------ whole function
    def emit(self) -> str:
        spec, sig = self.spec, self.sigs[self.name]
        where = f"{self.SRC}::{self.CLS}.{spec['py']}"
        if sig["order"] != list(spec["params"]):
            raise TranslateError(where, f"signature changed: {sig['order']} (expected {list(spec['params'])})")
        if sig["vararg"] is not None or sig["kwarg"] != spec["kwarg"]:
            raise TranslateError(where, f"signature changed: *{sig['vararg']}, **{sig['kwarg']}")
        env = {p: (lname(p), k) for p, k in spec["params"].items()}
        ptxt = "".join(f" ({lname(p)} : {self.LEAN_TY[k]})" for p, k in spec["params"].items())
        ret = self.LEAN_TY[spec["ret"]]
        if self.mode == "pure":
            body = [s for s in self.fdef.body
                    if not (isinstance(s, ast.Expr) and isinstance(s.value, ast.Constant) and isinstance(s.value.value, str))]
            if len(body) != 1 or not isinstance(body[0], ast.Return) or body[0].value is None:
                self.err(self.fdef, "a pure method must be a single `return <expression>`")
            v, k = self.ex(body[0].value, env)
            if k != spec["ret"] or "←" in v:
                self.err(body[0], f"returns kind {k}, expected a pure {spec['ret']}")
            return f"def {self.name} (self : {self.STATE_TY}){ptxt} : {ret} :=\n  {v}\n"
        if self.mode == "reader":
            tail = lambda e, a, dd: self.err(self.fdef, "falls off the end without returning")   # noqa: E731
            body = self.block(list(self.fdef.body), env, {}, 1, tail)
            return f"def {self.name} (self : {self.STATE_TY}){ptxt} : Except Err {ret} := do\n" + body
        tail = (lambda e, a, dd: f"{self.ind(dd)}pure (self, ())\n") if spec["ret"] == "unit" else \
               (lambda e, a, dd: self.err(self.fdef, "falls off the end without returning"))
        body = self.block(list(self.fdef.body), env, {}, 1, tail)
        return f"def {self.name} (self : {self.STATE_TY}){ptxt} : Except Err ({self.STATE_TY} × {ret}) := do\n" + body


# ---------------------------------------------------------------------------------------------- driver
def locate(key: str, spec: dict) -> ast.FunctionDef:
    f, node = W.classes[spec["cls"]]
    want = [spec["decorator"]] if spec["decorator"] else []
    found = [n for n in node.body if isinstance(n, ast.FunctionDef) and n.name == spec["py"] and decorators(n) == want]
    if len(found) != 1:
        raise TranslateError(f"{f}::{spec['cls']}.{spec['py']}", f"{len(found)} definitions with decorators {want}")
    return found[0]


def signature(where: str, f: ast.FunctionDef) -> dict:
    a = f.args
    pos = [x.arg for x in a.posonlyargs + a.args]
    if not pos or pos[0] != "self":
        raise TranslateError(where, "first parameter is not self")
    pos = pos[1:]
    order = pos + [x.arg for x in a.kwonlyargs]
    defaults = dict(zip(pos[len(pos) - len(a.defaults):], a.defaults))
    defaults.update({x.arg: dflt for x, dflt in zip(a.kwonlyargs, a.kw_defaults) if dflt is not None})
    return {"order": order, "pos": pos, "defaults": defaults, "vararg": a.vararg.arg if a.vararg else None,
            "kwarg": a.kwarg.arg if a.kwarg else None}


def emit_const(key: str, spec: dict) -> tuple[str, str]:
    """`<Class>_absrefrac`: the string the constructor chain of the class hands to `SpikeRefractoryMixin.__init__`"""
    cls = spec["cls"]
    f = W.classes[cls][0]
    at = W.attrs(cls).get("SpikeRefractoryMixin__absrefrac_attr")
    where = f"{f}::{cls}.__init__"
    if at is None or at["kind"] != "str":
        raise TranslateError(where, "the constructor chain does not set SpikeRefractoryMixin.__absrefrac_attr")
    if at["const"] is None:
        raise TranslateError(where, "the `absrefrac` argument of SpikeRefractoryMixin.__init__ is not a string literal")
    named = W.attrs(cls).get(at["const"])
    if named is None or named["kind"] != "real" or FIELDS.get(at["const"]) != "real":
        raise TranslateError(where, f"`absrefrac` names {at['const']!r}, which is not a float attribute the constructor sets")
    seg = ast.get_source_segment(W.src[at["file"]], at["node"]) or ""
    sha = hashlib.sha256(seg.encode()).hexdigest()[:16]
    text = (f"\n/-- from `{at['file']}` :: constructor chain of `{cls}` :: the `absrefrac` argument of "
            f"`SpikeRefractoryMixin.__init__` (sha256 of source segment {sha}) -/\n"
            f"def {key} : String := {json.dumps(at['const'])}\n")
    return text, sha


def regenerate() -> dict:
    """regenerates Gen/NeuronProg.lean; same return shape as `progtx.regenerate_class`"""
    global W
    W = World()
    T = NeuronTx
    fdefs = {k: locate(k, s) for k, s in T.METHODS.items() if "const" not in s}
    sigs = {k: signature(f"{W.classes[T.METHODS[k]['cls']][0]}::{T.METHODS[k]['cls']}.{f.name}", f) for k, f in fdefs.items()}
    text = T.HEADER
    info = {}
    for k, s in T.METHODS.items():
        if "const" in s:
            t, sha = emit_const(k, s)
            text += t
            info[k] = sha
            continue
        file = W.classes[s["cls"]][0]
        seg = ast.get_source_segment(W.src[file], fdefs[k]) or ""
        sha = hashlib.sha256(seg.encode()).hexdigest()[:16]
        dec = f" (`@{s['decorator']}`)" if s["decorator"] else ""
        recv = f", receiver `{s['recv']}`" if s["recv"] not in (None, s["cls"]) else ""
        text += (f"\n/-- from `{file}` :: `{s['cls']}.{s['py']}`{dec}{recv} (sha256 of source segment {sha}) -/\n"
                 + T(k, fdefs[k], sigs).emit())
        info[k] = sha
    text += f"\nend {T.NAMESPACE}\n"
    p = GEN / T.OUT
    changed = not p.exists() or p.read_text() != text
    if changed:
        p.write_text(text)
    return {"functions": info, "rewritten": changed}


if __name__ == "__main__":
    print(json.dumps(regenerate(), indent=1))
