"""usage: store_seeded.py <PROP> <n> <src out dir> <replay json or -> <note>   — copies a confirmed seeded change into /verif/seeded/"""
import json, shutil, sys
from pathlib import Path
prop, n, src, replay, note = sys.argv[1:6]
d = Path("/verif/seeded") / f"{prop}-{n}"
d.mkdir(parents=True, exist_ok=True)
for f in ("patch.diff", "demo.py"):
    shutil.copy(Path(src) / f, d / f)
m = json.loads((Path(src) / "meta.json").read_text())
res = {"verdict": "MISSED (no violation reported)"}
if replay != "-":
    r = json.loads(Path(replay).read_text())
    res = {"verdict": "VIOLATION (failing input found)" if r.get("failing_input") else "VIOLATION no-failing-input-found (proof/tie broken)",
           "key": r.get("key"), "what": r.get("what"), "broken": r.get("broken", [])[:4],
           "failing_input": r.get("failing_input")}
out = {"property": prop, "source": "independent sub-agent given only the property text and a scratch worktree",
       "summary": m.get("summary"), "needs_to_manifest": m.get("needs_to_manifest"), "suite_result_with_patch": m.get("suite_result"),
       "confirmed_by_me": {"demo_on_clean_tree": "exit 0", "demo_with_patch": "exit 1",
                           "how": f"git apply in a scratch worktree at /repo main, demo.py, then VERIF_REPO=<worktree> ./check {prop} --tier quick"},
       "check_result": res, "note": note}
(d / "meta.json").write_text(json.dumps(out, indent=1, default=str))
print(d, res["verdict"], res.get("key"))
