"""Bridge to the Lean project: build, per-theorem error mapping, axiom audit, driver processes.

Everything here shells out to `lake` inside /verif/lean.  Builds are serialised with a file
lock so several checks may run in parallel.
"""
from __future__ import annotations

import fcntl
import os
import re
import subprocess
import tempfile
import time
from contextlib import contextmanager
from pathlib import Path

VERIF = Path(__file__).resolve().parent.parent


def _lean_dir() -> Path:
    """The lake project used by this run.  Checks of a scratch repository (`VERIF_REPO` set to
    something other than /repo) work on a private rsync'ed copy of /verif/lean, so that regenerated
    definitions and build products of a mutated tree never mix with those of /repo."""
    if os.environ.get("VERIF_LEAN_DIR"):
        return Path(os.environ["VERIF_LEAN_DIR"])
    repo = os.environ.get("VERIF_REPO")
    if repo and Path(repo).resolve() != Path("/repo"):
        import hashlib
        d = Path("/tmp") / ("verif-lean-" + hashlib.sha1(str(Path(repo).resolve()).encode()).hexdigest()[:10])
        d.mkdir(exist_ok=True)
        with open(d.parent / (d.name + ".lock"), "w") as fh:
            fcntl.flock(fh, fcntl.LOCK_EX)
            subprocess.run(["rsync", "-a", "--delete", str(VERIF / "lean") + "/", str(d) + "/"], check=True)
            fcntl.flock(fh, fcntl.LOCK_UN)
        os.environ["VERIF_LEAN_DIR"] = str(d)
        return d
    return VERIF / "lean"


LEAN = _lean_dir()
LOCKDIR = (VERIF / ".locks") if LEAN == VERIF / "lean" else LEAN / ".locks"
ALLOWED_AXIOMS = {"propext", "Classical.choice", "Quot.sound"}
FORBIDDEN = re.compile(
    r"\b(sorry|admit|native_decide|bv_decide|implemented_by)\b|^\s*axiom\s|\bunsafe\s|maxHeartbeats\s+0\b"
)
DECL = re.compile(r"^(?:private\s+|protected\s+|@\[[^\]]*\]\s*)*(theorem|lemma)\s+([A-Za-z_][\w'.?!]*)")
NS = re.compile(r"^namespace\s+(\S+)")
END = re.compile(r"^end\s+(\S+)")


@contextmanager
def build_lock():
    LOCKDIR.mkdir(exist_ok=True)
    with open(LOCKDIR / "lake.lock", "w") as fh:
        fcntl.flock(fh, fcntl.LOCK_EX)
        try:
            yield
        finally:
            fcntl.flock(fh, fcntl.LOCK_UN)


def module_path(module: str) -> Path:
    return LEAN / (module.replace(".", "/") + ".lean")


def strip_comments(text: str) -> str:
    """Remove `/- … -/` (nested) and `-- …` comments, keeping line structure."""
    out, i, depth, n = [], 0, 0, len(text)
    while i < n:
        if text.startswith("/-", i):
            depth += 1
            i += 2
        elif depth and text.startswith("-/", i):
            depth -= 1
            i += 2
        elif depth:
            out.append("\n" if text[i] == "\n" else " ")
            i += 1
        elif text.startswith("--", i):
            while i < n and text[i] != "\n":
                i += 1
        else:
            out.append(text[i])
            i += 1
    return "".join(out)


def theorems_in(path: Path) -> list[dict]:
    """Declared theorems of a file with fully-qualified names and line spans."""
    src = strip_comments(path.read_text())
    lines = src.split("\n")
    ns: list[str] = []
    found = []
    for ln, line in enumerate(lines, 1):
        m = NS.match(line)
        if m:
            ns.append(m.group(1))
            continue
        m = END.match(line)
        if m and ns and ns[-1] == m.group(1):
            ns.pop()
            continue
        m = DECL.match(line)
        if m:
            found.append({"name": ".".join(ns + [m.group(2)]) if ns else m.group(2),
                          "short": m.group(2), "line": ln, "file": str(path)})
    for a, b in zip(found, found[1:] + [None]):
        a["end"] = (b["line"] - 1) if b else len(lines)
    return found


def forbidden_hits(paths: list[Path]) -> list[str]:
    hits = []
    for p in paths:
        src = strip_comments(p.read_text())
        for ln, line in enumerate(src.split("\n"), 1):
            if FORBIDDEN.search(line):
                hits.append(f"{p.relative_to(LEAN)}:{ln}: {line.strip()[:120]}")
    return hits


def lake(args: list[str], timeout: int = 3600, stdin: str | None = None) -> subprocess.CompletedProcess:
    env = dict(os.environ)
    return subprocess.run(["lake", *args], cwd=LEAN, env=env, input=stdin, text=True,
                          capture_output=True, timeout=timeout)


ERR = re.compile(r"^error: (\S+?\.lean):(\d+):(\d+): (.*)$")


def build(targets: list[str], timeout: int = 3600, locked: bool = False) -> dict:
    """`lake build targets` → {'ok', 'errors': [{file,line,msg,theorem}], 'log', 'wall_s'}
    (`locked=True`: the caller already holds `build_lock`)"""
    t0 = time.time()
    if locked:
        cp = lake(["build", *targets], timeout=timeout)
    else:
        with build_lock():
            cp = lake(["build", *targets], timeout=timeout)
    log = cp.stdout + cp.stderr
    errors = []
    cache: dict[str, list[dict]] = {}
    for line in log.split("\n"):
        m = ERR.match(line)
        if not m:
            continue
        f, ln, _, msg = m.group(1), int(m.group(2)), m.group(3), m.group(4)
        p = (LEAN / f) if not os.path.isabs(f) else Path(f)
        if str(p) not in cache:
            try:
                cache[str(p)] = theorems_in(p)
            except OSError:
                cache[str(p)] = []
        thm = next((t["name"] for t in cache[str(p)] if t["line"] <= ln <= t["end"]), None)
        errors.append({"file": f, "line": ln, "msg": msg, "theorem": thm})
    ok = cp.returncode == 0
    if not ok and not errors:
        errors.append({"file": "", "line": 0, "msg": log[-2000:], "theorem": None})
    return {"ok": ok, "errors": errors, "log": log, "wall_s": time.time() - t0}


def audit(modules: list[str], theorem_files: list[Path], timeout: int = 1800) -> dict:
    """`#print axioms` for every theorem of the given property files."""
    thms = [t for f in theorem_files for t in theorems_in(f)]
    body = "".join(f"import {m}\n" for m in modules)
    body += "".join(f"#print axioms {t['name']}\n" for t in thms)
    with tempfile.NamedTemporaryFile("w", suffix=".lean", dir=LEAN, delete=False) as fh:
        fh.write(body)
        tmp = fh.name
    try:
        cp = lake(["env", "lean", tmp], timeout=timeout)
    finally:
        os.unlink(tmp)
    out = cp.stdout + cp.stderr
    res: dict[str, list[str]] = {}
    # "'name' depends on axioms: [a, b]"  /  "'name' does not depend on any axioms"
    for m in re.finditer(r"^'([^\n]+?)' depends on axioms: \[([^\]]*)\]", out, re.M):
        res[m.group(1)] = [a.strip() for a in m.group(2).replace("\n", " ").split(",") if a.strip()]
    for m in re.finditer(r"^'([^\n]+?)' does not depend on any axioms", out, re.M):
        res[m.group(1)] = []
    bad = {}
    for t in thms:
        if t["name"] not in res:
            bad[t["name"]] = ["<no axiom report: " + out[-300:].replace("\n", " ") + ">"]
        else:
            extra = [a for a in res[t["name"]] if a not in ALLOWED_AXIOMS]
            if extra:
                bad[t["name"]] = extra
    return {"theorems": [t["name"] for t in thms], "axioms": res, "bad": bad, "raw_ok": cp.returncode == 0}


def leanchecker(modules: list[str], timeout: int = 3600) -> dict:
    cp = lake(["env", "leanchecker", *modules], timeout=timeout)
    return {"ok": cp.returncode == 0, "log": (cp.stdout + cp.stderr)[-2000:]}


def run_driver(driver: str, lines: list[str], timeout: int = 1800) -> list[str]:
    """Pipe request lines through a driver; returns one response line per request."""
    cp = lake(["env", "lean", "--run", driver], timeout=timeout, stdin="\n".join(lines) + "\n")
    if cp.returncode != 0:
        raise RuntimeError(f"driver {driver} failed: {cp.stderr[-2000:]}")
    out = cp.stdout.split("\n")
    if out and out[-1] == "":
        out.pop()
    if len(out) != len([l for l in lines if l.strip()]):
        raise RuntimeError(f"driver {driver}: {len(out)} responses for {len(lines)} requests")
    return out
