"""Re-run the property check of every stored seeded change (seeded/<id>/patch.diff) against a scratch
worktree of /repo with the patch applied, and record the CURRENT result in seeded/<id>/meta.json
(`current_result`).  /repo itself is never touched; each worktree, its private lean copy and its
output directory are removed as soon as the run is over.

usage: seeded_regress.py [-j N] [--tier quick] [--also C07,C15] [ids or property prefixes ...]
"""
from __future__ import annotations

import argparse
import hashlib
import json
import os
import shutil
import subprocess
import sys
from concurrent.futures import ThreadPoolExecutor
from pathlib import Path

VERIF = Path(__file__).resolve().parent.parent
SEEDED = VERIF / "seeded"


def sh(*a, **k):
    return subprocess.run(list(a), capture_output=True, text=True, **k)


def run_one(sid: str, tier: str, also: list[str]) -> dict:
    d = SEEDED / sid
    prop = sid.split("-")[0]
    wt = Path("/tmp") / f"sr-{sid.lower()}"
    if wt.exists():
        sh("git", "-C", "/repo", "worktree", "remove", "--force", str(wt))
        shutil.rmtree(wt, ignore_errors=True)
    r = sh("git", "-C", "/repo", "worktree", "add", "--detach", str(wt), "HEAD")
    res: dict = {"id": sid}
    try:
        r = sh("git", "-C", str(wt), "apply", str(d / "patch.diff"))
        if r.returncode != 0:
            res["error"] = "patch does not apply: " + r.stderr.strip()[:300]
            return res
        h = hashlib.sha1(str(wt.resolve()).encode()).hexdigest()[:10]
        outdir = Path("/tmp") / f"verif-out-{h}"
        leandir = Path("/tmp") / f"verif-lean-{h}"
        shutil.rmtree(outdir, ignore_errors=True)
        results = {}
        for p in [prop] + [a for a in also if a != prop]:
            env = dict(os.environ, VERIF_REPO=str(wt), VERIF_SEED=os.environ.get("VERIF_SEED", "0"))
            c = sh(str(VERIF / "check"), p, "--tier", tier, env=env)
            line = next((l for l in c.stdout.splitlines() if l.startswith("VIOLATION")), "")
            rr = {"rc": c.returncode}
            if c.returncode == 1 and "replay=" in line:
                rp = line.split("replay=")[1].split()[0]
                try:
                    rj = json.loads(Path(rp).read_text())
                    rr.update({"verdict": "replay" if rj.get("failing_input") else "tie/proof only",
                               "key": rj.get("key"), "what": (rj.get("what") or "")[:400],
                               "broken": rj.get("broken", [])[:4]})
                except Exception as e:  # noqa: BLE001
                    rr["verdict"] = f"replay unreadable: {e}"
            elif c.returncode == 0:
                rr["verdict"] = "MISSED"
            else:
                rr["verdict"] = f"harness rc={c.returncode}"
                rr["tail"] = (c.stdout + c.stderr)[-600:]
            results[p] = rr
        res["results"] = results
        shutil.rmtree(outdir, ignore_errors=True)
        shutil.rmtree(leandir, ignore_errors=True)
        try:
            (leandir.parent / (leandir.name + ".lock")).unlink()
        except OSError:
            pass
    finally:
        sh("git", "-C", "/repo", "worktree", "remove", "--force", str(wt))
        shutil.rmtree(wt, ignore_errors=True)
    return res


def main():
    ap = argparse.ArgumentParser()
    ap.add_argument("-j", type=int, default=4)
    ap.add_argument("--tier", default="quick")
    ap.add_argument("--also", default="")
    ap.add_argument("--no-write", action="store_true")
    ap.add_argument("ids", nargs="*")
    a = ap.parse_args()
    also = [x for x in a.also.split(",") if x]
    all_ids = sorted(p.name for p in SEEDED.iterdir() if (p / "patch.diff").exists())
    ids = [i for i in all_ids if not a.ids or any(i == x or i.startswith(x + "-") for x in a.ids)]
    head = sh("git", "-C", "/repo", "rev-parse", "--short", "HEAD").stdout.strip()
    vhead = sh("git", "-C", str(VERIF), "rev-parse", "--short", "HEAD").stdout.strip()
    with ThreadPoolExecutor(a.j) as ex:
        for res in ex.map(lambda i: run_one(i, a.tier, also), ids):
            sid = res["id"]
            prop = sid.split("-")[0]
            if "error" in res:
                print(sid, "ERROR", res["error"])
                continue
            own = res["results"][prop]
            others = {k: v["verdict"] for k, v in res["results"].items() if k != prop}
            print(sid, own["verdict"], own.get("key") or "", others or "", flush=True)
            if not a.no_write:
                mp = SEEDED / sid / "meta.json"
                m = json.loads(mp.read_text())
                m["current_result"] = {"repo_head": head, "verif_head": vhead, "tier": a.tier, **own}
                if others:
                    m["current_result"]["other_checks"] = {k: res["results"][k] for k in others}
                mp.write_text(json.dumps(m, indent=1, default=str))


if __name__ == "__main__":
    sys.exit(main())
