"""Verdict logic of one check run (DESIGN §5): regenerate → build → audit → correspondence
→ implementation-side search → verdict; writes evidence/<id>.json and, on a violation,
replays/<id>-<seed>-<n>.json.

usage: runner.py Cxx [--tier quick|thorough] [--replay file]
exit 0 = held on everything explored; 1 = VIOLATION line printed; 2 = harness failure / timeout.
"""
from __future__ import annotations

import argparse
import hashlib
import importlib
import json
import os
import random
import sys
import time
import traceback
from dataclasses import dataclass, field
from pathlib import Path

HERE = Path(__file__).resolve().parent
VERIF = HERE.parent
sys.path.insert(0, str(HERE))
# the implementation under test: /repo's working tree (VERIF_REPO lets a scratch copy be checked)
REPO = Path(os.environ.get("VERIF_REPO", "/repo")).resolve()
sys.path.insert(0, str(REPO))
# where evidence/ and replays/ are written: /verif for runs against /repo itself; a private directory
# for runs against a scratch copy (mutation rehearsals), so that the committed evidence always
# describes /repo and parallel rehearsals do not collide.
if os.environ.get("VERIF_OUT_DIR"):
    OUT = Path(os.environ["VERIF_OUT_DIR"])
elif REPO != Path("/repo"):
    OUT = Path("/tmp") / ("verif-out-" + hashlib.sha1(str(REPO).encode()).hexdigest()[:10])
else:
    OUT = VERIF
OUT.mkdir(parents=True, exist_ok=True)

import leanbridge as lb  # noqa: E402


@dataclass
class Finding:
    """A disagreement found by a correspondence / search run.

    kind 'spec'  : the real code disagrees with the property's specification on a concrete input
                   (a failing input — a violation unless listed in KNOWN_FINDINGS.txt);
    kind 'model' : the real code disagrees with the code-shaped model only (the tie is broken).
    """
    kind: str
    key: str
    what: str
    case: dict


@dataclass
class Exploration:
    evaluations: int = 0
    nontrivial: set = field(default_factory=set)
    rule: str = ""
    samples: list = field(default_factory=list)
    hist: dict = field(default_factory=dict)
    findings: list = field(default_factory=list)
    traces_validated: int = 0
    extra: dict = field(default_factory=dict)
    exhaustive: bool = False

    def count(self, family: str, label: str, k: int = 1):
        d = self.hist.setdefault(family, {})
        d[label] = d.get(label, 0) + k

    def nontriv(self, obj) -> None:
        self.nontrivial.add(hashlib.sha1(repr(obj).encode()).hexdigest()[:16])


class Ctx:
    def __init__(self, prop: str, tier: str, seed: int, deadline: float):
        self.prop, self.tier, self.seed, self.deadline = prop, tier, seed, deadline
        self.rng = random.Random(seed * 1000003 + int(prop[1:]))
        self.intensify = False
        self.broken: list[str] = []

    def time_left(self) -> float:
        return self.deadline - time.time()

    def run_driver(self, driver: str, lines: list[str]) -> list[str]:
        return lb.run_driver(driver, lines, timeout=max(60, int(self.time_left())))


def load_known() -> tuple[dict, list]:
    known, fixed = {}, []
    p = VERIF / "KNOWN_FINDINGS.txt"
    if p.exists():
        for line in p.read_text().splitlines():
            line = line.strip()
            if line.startswith("known:"):
                parts = dict(tok.split("=", 1) for tok in line.split()[1:3])
                known[parts["key"]] = (parts["property"], line.split(None, 3)[3] if len(line.split(None, 3)) > 3 else "")
            elif line.startswith("fixed:"):
                fixed.append(line)
    return known, fixed


TRUSTED = [
    "Lean 4.33.0 kernel; axioms allowed: propext, Classical.choice, Quot.sound (audited per theorem by #print axioms)",
    "no native_decide / bv_decide / sorry / admit / added axioms (grep on every run)",
    "harness/translate.py + harness/sites.py (Python AST -> Lean, functions and sites inside methods), validated per run by differential execution of the Float copies against the Python originals / compiled site expressions",
    "harness/progtx*.py (statement-level translators: whole method bodies -> Lean programs) and their hand-written vocabularies of torch / CPython primitives (Gen/*Prelude.lean); the programs are proved equal to the hand-written models (Props/*GlueProg.lean, Props/C01Glue.lean), which the correspondence check validates against the real code",
    "harness correspondence check + driver line protocol (parsing, canonicalisation)",
    "hand-written models of torch/CPython primitives (slicing, cat, roll, gather/scatter, hooks, state_dict), validated by correspondence only",
    "element-wise lifting of scalar definitions to tensors; Lean Float = IEEE double = torch float64 op-by-op",
]


def main() -> int:
    ap = argparse.ArgumentParser()
    ap.add_argument("prop")
    ap.add_argument("--tier", default=os.environ.get("VERIF_TIER") or "quick")
    ap.add_argument("--replay")
    args = ap.parse_args()
    prop = args.prop.upper()
    tier = args.tier if args.tier in ("quick", "thorough") else "quick"
    try:
        seed = int(os.environ.get("VERIF_SEED", "0") or 0)
    except ValueError:
        seed = 0
    t0 = time.time()
    budget = float(os.environ.get("VERIF_BUDGET_S", 1500 if tier == "quick" else 5400))
    ctx = Ctx(prop, tier, seed, t0 + budget)
    try:
        return _run(ctx, args, t0)
    except Exception:
        traceback.print_exc()
        print(f"HARNESS-ERROR property={prop} (no verdict)")
        return 2


def _run(ctx: Ctx, args, t0: float) -> int:
    prop, tier, seed = ctx.prop, ctx.tier, ctx.seed
    mod = importlib.import_module(f"corr.{prop.lower()}")
    spec = mod.SPEC
    if args.replay:
        return mod.replay(ctx, json.loads(Path(args.replay).read_text()))

    broken: list[str] = []          # theorem / tie names that no longer check
    broken_detail: list[dict] = []

    # 1+2. regenerate translated definitions from /repo, then build — under one lock, so that a
    # concurrent check cannot swap the generated files between the two steps
    gen_info = {}
    prop_files = [lb.LEAN / f for f in spec["prop_files"]]
    lemma_files = [lb.LEAN / f for f in spec.get("lemma_files", [])]
    with lb.build_lock():
        if spec.get("translate"):
            import translate
            try:
                gen_info = translate.regenerate(spec["translate"])
            except translate.TranslateError as e:
                broken.append(f"translator:{e.where}")
                broken_detail.append({"stage": "translate", "where": e.where, "msg": str(e)})
        b = lb.build(spec["lean_targets"], locked=True)
        driver_ok = b["ok"]
        if not b["ok"] and spec.get("driver_targets"):
            # proofs broke: the executable model may still build, so the search can use the driver
            driver_ok = lb.build(spec["driver_targets"], locked=True)["ok"]
    all_thms = [t for f in prop_files + lemma_files if f.exists() for t in lb.theorems_in(f)]
    failed_thms = set()
    if not b["ok"]:
        for e in b["errors"]:
            name = e["theorem"] or f"{e['file']}:{e['line']}"
            failed_thms.add(name)
            broken.append(f"proof:{name}")
            broken_detail.append({"stage": "build", **e})

    # 3. audit
    aud = {"theorems": [], "axioms": {}, "bad": {}}
    hits = lb.forbidden_hits([f for f in prop_files + lemma_files if f.exists()]
                             + [lb.LEAN / f for f in spec.get("model_files", []) if (lb.LEAN / f).exists()])
    for h in hits:
        broken.append(f"audit:forbidden:{h}")
        broken_detail.append({"stage": "audit", "msg": h})
    if b["ok"]:
        aud = lb.audit(spec["lean_targets"], prop_files)
        for name, ax in aud["bad"].items():
            broken.append(f"audit:{name}")
            failed_thms.add(name)
            broken_detail.append({"stage": "audit", "theorem": name, "axioms": ax})
        if tier == "thorough":
            lc = lb.leanchecker(spec["lean_targets"])
            if not lc["ok"]:
                broken.append("audit:leanchecker")
                broken_detail.append({"stage": "leanchecker", "msg": lc["log"]})
    obligations = len(all_thms)
    if b["ok"]:
        discharged = obligations - len([t for t in all_thms if t["name"] in failed_thms])
    else:
        bad_files = {e["file"] for e in b["errors"]}
        discharged = len([t for t in all_thms
                          if t["name"] not in failed_thms
                          and not any(t["file"].endswith(bf) for bf in bad_files if bf)
                          and t["file"] not in map(str, prop_files)])

    # 4+5. correspondence and implementation-side search
    ctx.intensify = bool(broken)
    ctx.broken = broken
    ctx.driver_ok = driver_ok
    try:
        ex: Exploration = mod.explore(ctx) if driver_ok else (
            mod.explore_impl_only(ctx) if hasattr(mod, "explore_impl_only") else Exploration(rule="build failed; no exploration"))
    except Exception as e:  # noqa: BLE001
        # The harness runs to completion on the unchanged tree.  If it crashes, then either the tie is already known to be
        # broken (the model / generated files no longer fit), or the exception was raised INSIDE the implementation under test
        # (an operation that used to succeed now raises): both are reported as a broken correspondence, not as a harness error.
        tb = traceback.extract_tb(e.__traceback__)
        in_impl = any(str(REPO / "inferno") in (fr.filename or "") for fr in tb[-6:])
        if not broken and not in_impl:
            raise
        where = next((f"{fr.filename}:{fr.lineno} in {fr.name}" for fr in reversed(tb) if str(REPO / "inferno") in (fr.filename or "")), "")
        broken.append("correspondence:exploration-raised" + (":in-implementation" if in_impl else ""))
        broken_detail.append({"stage": "exploration", "exception": f"{type(e).__name__}: {str(e)[:500]}", "where": where,
                              "traceback": traceback.format_exc()[-3000:]})
        ex = Exploration(rule=f"exploration stopped by {type(e).__name__} ({'raised inside the implementation at ' + where if in_impl else 'harness'})")

    known, _fixed = load_known()
    spec_findings = [f for f in ex.findings if f.kind == "spec"]
    model_findings = [f for f in ex.findings if f.kind == "model"]
    new_spec = [f for f in spec_findings if f.key not in known]
    seen_known = {}
    for f in spec_findings:
        if f.key in known:
            seen_known.setdefault(f.key, f)
    for f in model_findings:
        broken.append(f"correspondence:{f.key}")
        broken_detail.append({"stage": "correspondence", "key": f.key, "what": f.what, "case": f.case})

    # 6. verdict
    rc = 0
    lines = []
    for key, f in seen_known.items():
        lines.append(f"KNOWN-FINDING: property={prop} key={key} {f.what}")
    replay_path = None
    if new_spec or broken:
        rdir = OUT / "replays"
        rdir.mkdir(exist_ok=True)
        n = 0
        while (rdir / f"{prop}-{seed}-{n}.json").exists():
            n += 1
        replay_path = rdir / f"{prop}-{seed}-{n}.json"
        payload = {"property": prop, "seed": seed, "tier": tier,
                   "broken": broken, "broken_detail": broken_detail[:20]}
        if new_spec:
            f0 = new_spec[0]
            payload.update({"failing_input": f0.case, "what": f0.what, "key": f0.key,
                            "other_failing_inputs": [{"key": f.key, "what": f.what, "case": f.case} for f in new_spec[1:6]]})
        replay_path.write_text(json.dumps(payload, indent=1, default=str))
        rel = os.path.relpath(replay_path, VERIF) if OUT == VERIF else str(replay_path)
        if new_spec:
            lines.append(f"VIOLATION property={prop} replay={rel}")
        else:
            lines.append(f"VIOLATION property={prop} replay={rel} no-failing-input-found")
        rc = 1

    wall = time.time() - t0
    checker_cmd = f"cd /verif/lean && lake build {' '.join(spec['lean_targets'])} && lake env lean <generated #print axioms file>"
    if tier == "thorough":
        checker_cmd += f" && lake env leanchecker {' '.join(spec['lean_targets'])}"
    cov = {
        "obligations": max(obligations, 1),
        "discharged": max(discharged, 0),
        "checker_cmd": checker_cmd,
        "trusted_base": TRUSTED + spec.get("trusted_extra", []),
        "theorems": [{"name": t, "axioms": aud["axioms"].get(t)} for t in aud["theorems"]],
        "helper_lemmas": len(all_thms) - len(aud["theorems"]),
        "evaluations": ex.evaluations,
        "distinct_nontrivial": len(ex.nontrivial),
        "rule": ex.rule,
        "samples": ex.samples[:5] if ex.samples else ["<none>"],
        "traces_validated_against_impl": ex.traces_validated,
        "histograms": ex.hist,
        "exhaustive": ex.exhaustive,
        "broken": broken,
        "known_findings_reobserved": sorted(seen_known),
        "generated_definitions": gen_info,
        "build_wall_s": round(b["wall_s"], 2),
        **ex.extra,
    }
    ev = {
        "property_id": prop, "tier": tier, "seed": seed, "level": "proof",
        "coverage": cov,
        "assumptions": spec.get("assumptions", []),
        "wall_s": round(wall, 2),
        "violations": len(new_spec) + (1 if (broken and not new_spec) else 0),
    }
    (OUT / "evidence").mkdir(exist_ok=True)
    (OUT / "evidence" / f"{prop}.json").write_text(json.dumps(ev, indent=1, default=str))
    for l in lines:
        print(l)
    print(f"{prop} tier={tier} seed={seed}: obligations={obligations} discharged={discharged} "
          f"evaluations={ex.evaluations} distinct_nontrivial={len(ex.nontrivial)} "
          f"findings(spec/model/known)={len(new_spec)}/{len(model_findings)}/{len(seen_known)} wall={wall:.1f}s")
    return rc


if __name__ == "__main__":
    sys.exit(main())
