"""Site extraction (DESIGN §3a): formula-level code that lives INSIDE methods of /repo's classes
(`forward` of synapses and trainers, a closure inside a constructor, an inline size expression) is
located in the AST by *class / method / assignment target* (never by line number), turned into a
synthetic function definition and handed to the same translator as the module-level functions
(`translate.FnTx`), so that the Lean definition is regenerated from the current source on every run.

A site is described in `translate_spec.SPEC[<module>]["sites"][<lean name>]` by

  file, cls, method        where to look (cls may be None for a module-level function)
  nested                   (optional) name of a function defined inside the method: look in ITS body
  target                   `ast.unparse` of the assignment target ("self.current", "t_delta", "size"),
                           or "return" for the returned expression
  nth                      (optional, default 0) which occurrence, in source order
  peel                     (optional) wrappers stripped from the right-hand side, outermost first:
                           "batchreduce" (`state.batchreduce(X, 0)` -> X), "nansum" (`X.nansum(..)` -> X),
                           "mean" (`X.mean(..)` -> X), ("arg", f, i) (`f(a0, a1, ..)` -> a_i),
                           ("elt", i) (tuple element), "paren-call-self" …
  rename                   {source text -> parameter name}: every sub-expression whose `ast.unparse`
                           equals a key becomes that parameter (`self.dt` -> `dt`, `inputs[0]` -> `x`)
  params                   {parameter name -> kind} in the order of the generated definition

Anything the description does not match raises `TranslateError` (reported as a broken tie).

The second half of this file extracts the `match (… , …)` routing tables and the `(pos, neg)` clamp
splits of every trainer into the core-only polymorphic module `Gen/Routes.lean`.
"""
from __future__ import annotations

import ast
import copy
import hashlib
from pathlib import Path


class SiteError(Exception):
    def __init__(self, where, msg):
        super().__init__(f"{where}: {msg}")
        self.where = where


def _flatten(stmts):
    """all statements in source order, descending into compound statements (not into nested defs)"""
    for s in stmts:
        yield s
        if isinstance(s, (ast.For, ast.While)):
            yield from _flatten(s.body)
            yield from _flatten(s.orelse)
        elif isinstance(s, ast.If):
            yield from _flatten(s.body)
            yield from _flatten(s.orelse)
        elif isinstance(s, ast.With):
            yield from _flatten(s.body)
        elif isinstance(s, ast.Try):
            yield from _flatten(s.body)
            yield from _flatten(s.orelse)
            yield from _flatten(s.finalbody)
        elif isinstance(s, ast.Match):
            for c in s.cases:
                yield from _flatten(c.body)


def find_callables(tree: ast.Module, cls: str | None, method: str, nested: str | None, where: str) -> list[ast.FunctionDef]:
    """every definition of that name (a property's getter and setter share one), in source order"""
    body = tree.body
    if cls is not None:
        c = next((n for n in body if isinstance(n, ast.ClassDef) and n.name == cls), None)
        if c is None:
            raise SiteError(where, f"class {cls} not found")
        body = c.body
    fs = [n for n in body if isinstance(n, ast.FunctionDef) and n.name == method]
    if not fs:
        raise SiteError(where, f"function {method} not found")
    if nested:
        gs = [g for f in fs for g in _flatten(f.body) if isinstance(g, ast.FunctionDef) and g.name == nested]
        if not gs:
            raise SiteError(where, f"nested function {nested} not found")
        fs = gs
    return fs


def _peel(node: ast.expr, peel, where: str) -> ast.expr:
    for p in peel:
        if p == "batchreduce":
            if not (isinstance(node, ast.Call) and isinstance(node.func, ast.Attribute) and node.func.attr == "batchreduce"
                    and len(node.args) == 2):
                raise SiteError(where, f"expected state.batchreduce(X, 0), found {ast.unparse(node)[:80]}")
            node = node.args[0]
        elif p in ("nansum", "mean", "sum", "bool"):
            if not (isinstance(node, ast.Call) and isinstance(node.func, ast.Attribute) and node.func.attr == p):
                raise SiteError(where, f"expected X.{p}(..), found {ast.unparse(node)[:80]}")
            node = node.func.value
        elif isinstance(p, tuple) and p[0] == "arg":
            _, fname, i = p
            if not (isinstance(node, ast.Call) and ast.unparse(node.func).split(".")[-1] == fname and len(node.args) > i):
                raise SiteError(where, f"expected {fname}(..) with > {i} arguments, found {ast.unparse(node)[:80]}")
            node = node.args[i]
        elif p == "genelt":
            if not isinstance(node, ast.GeneratorExp):
                raise SiteError(where, f"expected a generator expression, found {ast.unparse(node)[:80]}")
            node = node.elt
        elif isinstance(p, tuple) and p[0] == "elt":
            if not (isinstance(node, ast.Tuple) and len(node.elts) > p[1]):
                raise SiteError(where, f"expected a tuple with > {p[1]} elements, found {ast.unparse(node)[:80]}")
            node = node.elts[p[1]]
        else:
            raise SiteError(where, f"unknown peel step {p!r}")
    return node


class _Rename(ast.NodeTransformer):
    def __init__(self, table):
        self.table = table
        self.used = set()

    def visit(self, node):
        if isinstance(node, ast.expr):
            try:
                txt = ast.unparse(node)
            except Exception:  # noqa: BLE001
                txt = None
            if txt in self.table:
                self.used.add(txt)
                return ast.copy_location(ast.Name(id=self.table[txt], ctx=ast.Load()), node)
        return super().visit(node)


def build(src: str, name: str, site: dict, where: str) -> tuple[ast.FunctionDef, str]:
    """synthetic `def <name>(<params>): return <site expression>` + the source text it came from"""
    tree = ast.parse(src)
    target, nth = site["target"], site.get("nth", 0)
    if target == "body":
        # the whole body of a (class) method: docstring and dtype normalisation (`x, y = _astensorsfloat(x, y)`,
        # identity on float tensors) dropped, the rest handed to the statement translator
        f = find_callables(tree, site.get("cls"), site["method"], site.get("nested"), where)[site.get("nth", 0)]
        body = []
        for st in f.body:
            if isinstance(st, ast.Expr) and isinstance(st.value, ast.Constant) and isinstance(st.value.value, str):
                continue
            if (isinstance(st, ast.Assign) and isinstance(st.value, ast.Call)
                    and ast.unparse(st.value.func) in site.get("drop_calls", ("_astensorsfloat", "astensors"))):
                lhs = ast.unparse(st.targets[0]).replace(" ", "")
                args = ",".join(ast.unparse(a) for a in st.value.args)
                if lhs.strip("()") != args:
                    raise SiteError(where, f"normalisation statement rebinds names differently: {ast.unparse(st)}")
                continue
            body.append(copy.deepcopy(st))
        rn = _Rename(site.get("rename", {}))
        body = [rn.visit(st) for st in body]
        unused = set(site.get("rename", {})) - rn.used - set(site.get("optional_rename", []))
        if unused:
            raise SiteError(where, f"rename keys no longer present in the site: {sorted(unused)}")
        margs = [a.arg for a in f.args.posonlyargs + f.args.args + f.args.kwonlyargs
                 if a.arg not in ("cls", "self") and a.arg not in site.get("ignore_args", [])]
        missing = [a for a in margs if a not in site["params"]]
        if missing:
            raise SiteError(where, f"method parameters without a declared kind: {missing}")
        args = ast.arguments(posonlyargs=[], args=[ast.arg(arg=p) for p in site["params"]], kwonlyargs=[],
                             kw_defaults=[], defaults=[])
        fd = ast.FunctionDef(name=name, args=args, body=body, decorator_list=[], type_params=[])
        ast.copy_location(fd, f)
        ast.fix_missing_locations(fd)
        return fd, (ast.get_source_segment(src, f) or ast.unparse(f))
    found = []
    for f in find_callables(tree, site.get("cls"), site["method"], site.get("nested"), where):
        for s in _flatten(f.body):
            if target == "return" and isinstance(s, ast.Return) and s.value is not None:
                found.append((s, s.value))
            elif target == "iftest" and isinstance(s, ast.If) and ast.unparse(s.test).startswith(site["startswith"]):
                found.append((s, s.test))          # the condition of the `if` whose source text starts with `startswith`
            elif isinstance(s, ast.Assign) and len(s.targets) == 1 and ast.unparse(s.targets[0]) == target:
                found.append((s, s.value))
            elif (isinstance(s, ast.Assign) and len(s.targets) == 1 and isinstance(s.targets[0], ast.Tuple)
                  and isinstance(s.value, ast.Tuple) and len(s.targets[0].elts) == len(s.value.elts)):
                # `a, b = e1, e2`: the right-hand sides are evaluated before any name is rebound
                for t_i, v_i in zip(s.targets[0].elts, s.value.elts):
                    if ast.unparse(t_i) == target:
                        found.append((s, v_i))
        if found and not site.get("all_defs"):
            break
    if len(found) <= nth:
        raise SiteError(where, f"assignment #{nth} to `{target}` not found ({len(found)} found)")
    stmt, rhs = found[nth]
    seg = (ast.unparse(rhs) if target == "iftest" else (ast.get_source_segment(src, stmt) or ast.unparse(stmt)))
    expr = _peel(rhs, site.get("peel", []), where)
    rn = _Rename(site.get("rename", {}))
    expr = rn.visit(copy.deepcopy(expr))
    unused = set(site.get("rename", {})) - rn.used - set(site.get("optional_rename", []))
    if unused:
        raise SiteError(where, f"rename keys no longer present in the site: {sorted(unused)}")
    args = ast.arguments(posonlyargs=[], args=[ast.arg(arg=p) for p in site["params"]], kwonlyargs=[],
                         kw_defaults=[], defaults=[])
    fd = ast.FunctionDef(name=name, args=args, body=[ast.Return(value=expr)], decorator_list=[], type_params=[])
    ast.fix_missing_locations(fd)
    ast.copy_location(fd, stmt)
    for n in ast.walk(fd):
        if not hasattr(n, "lineno"):
            n.lineno = stmt.lineno
            n.col_offset = 0
    return fd, seg


def compile_site(fd: ast.FunctionDef, env: dict | None = None, fn_params: tuple = ()):
    """the synthetic function as a Python callable (translator validation executes it with torch).

    `env` is shared by the sites of one module, so that a site calling a sibling site (`cls.cdf(…)`,
    renamed to `Normal_cdf`) finds it.  Parameters that stand for opaque primitives (`erf`, `lgamma`, …
    kinds fn / fn2) are removed from the signature and resolved as globals of `env`, which is how a
    callee sees the primitive its caller was given."""
    import math

    import torch
    if env is None:
        env = {}
    env.setdefault("torch", torch)
    env.setdefault("math", math)
    for k, v in {"dtype": torch.float64, "device": "cpu", "abs": abs, "max": max, "min": min, "bool": bool, "int": int,
                 "sum": sum, "xlogy": torch.special.xlogy}.items():
        env.setdefault(k, v)
    fd2 = copy.deepcopy(fd)
    fd2.args.args = [a for a in fd2.args.args if a.arg not in fn_params]
    mod = ast.Module(body=[fd2], type_ignores=[])
    ast.fix_missing_locations(mod)
    exec(compile(mod, "<site>", "exec"), env)  # noqa: S102 - the code is /repo's own expression
    inner = env[fd.name]

    def call(**kwargs):
        for p in fn_params:
            if p in kwargs:
                env[p] = kwargs.pop(p)
        return inner(**kwargs)
    return call


# ---------------------------------------------------------------------------------------------
# routing tables / clamp splits of the trainers  ->  Gen/Routes.lean (core Lean only, polymorphic)
# ---------------------------------------------------------------------------------------------

TRAINER_FILES = [
    "inferno/learn/trainers/two_factor_stdp.py",
    "inferno/learn/trainers/three_factor_stdp.py",
    "inferno/learn/trainers/delay_adj_two_factor_stdp.py",
    "inferno/learn/trainers/delay_adj_three_factor_stdp.py",
    "inferno/learn/trainers/kernel_stdp.py",
    "inferno/learn/trainers/homeostasis.py",
]


def _names(node) -> list[str]:
    out = []
    for n in ast.walk(node):
        if isinstance(n, ast.Name) and n.id not in out and n.id not in ("torch", "None"):
            out.append(n.id)
    return out


def _subject_term(e: ast.expr, where: str) -> tuple[str, list[str], str]:
    """`X >= 0` / `X < 0` with X a product of `state.<a>` / local names  ->  (lean Bool term, free names, kind)"""
    if not (isinstance(e, ast.Compare) and len(e.ops) == 1 and isinstance(e.comparators[0], ast.Constant)
            and e.comparators[0].value == 0 and isinstance(e.ops[0], (ast.GtE, ast.Lt))):
        raise SiteError(where, f"match subject component is not `X >= 0` / `X < 0`: {ast.unparse(e)}")
    free: list[str] = []

    def tx(n):
        if isinstance(n, ast.Attribute) and isinstance(n.value, ast.Name) and n.value.id == "state":
            if n.attr not in free:
                free.append(n.attr)
            return n.attr
        if isinstance(n, ast.Name):
            if n.id not in free:
                free.append(n.id)
            return n.id
        if isinstance(n, ast.BinOp) and isinstance(n.op, ast.Mult):
            return f"({tx(n.left)} * {tx(n.right)})"
        raise SiteError(where, f"unsupported match subject term {ast.unparse(n)}")
    x = tx(e.left)
    if isinstance(e.ops[0], ast.GtE):
        return f"decide (0 ≤ {x})", free, "ge0"
    return f"decide ({x} < 0)", free, "lt0"


def _case_key(pat, where) -> tuple[bool, bool]:
    if not (isinstance(pat, ast.MatchSequence) and len(pat.patterns) == 2):
        raise SiteError(where, "case pattern is not a pair")
    out = []
    for p in pat.patterns:
        if isinstance(p, ast.MatchSingleton) and isinstance(p.value, bool):
            out.append(p.value)
        elif isinstance(p, ast.MatchValue) and isinstance(p.value, ast.Constant) and isinstance(p.value.value, bool):
            out.append(p.value.value)
        else:
            raise SiteError(where, "case pattern component is not True / False")
    return out[0], out[1]


def _part_expr(e: ast.expr, where: str) -> str:
    """`None` | name | a + b  (scalar parts handed to the updater)"""
    if isinstance(e, ast.Constant) and e.value is None:
        return "none"

    def tx(n):
        if isinstance(n, ast.Name):
            return n.id
        if isinstance(n, ast.BinOp) and isinstance(n.op, ast.Add):
            return f"({tx(n.left)} + {tx(n.right)})"
        raise SiteError(where, f"unsupported part expression {ast.unparse(n)}")
    return f"some {tx(e)}"


def _cat_expr(e: ast.expr, where: str) -> str:
    """`torch.cat((a, b), 0)` -> `(a ++ b)`"""
    if not (isinstance(e, ast.Call) and ast.unparse(e.func) == "torch.cat" and len(e.args) == 2
            and isinstance(e.args[0], ast.Tuple) and isinstance(e.args[1], ast.Constant) and e.args[1].value == 0
            and all(isinstance(x, ast.Name) for x in e.args[0].elts)):
        raise SiteError(where, f"expected torch.cat((names…), 0), found {ast.unparse(e)[:80]}")
    return "(" + " ++ ".join(x.id for x in e.args[0].elts) + ")"


def _split_expr(e: ast.expr, shapes: dict, where: str) -> tuple[str, str]:
    """expressions of the clamp splits; returns (lean term, shape) with shapes
    'br' = List (List (Option α)) (batch × receptive, NaN = none), 'b' = List α, 's' = α"""
    if isinstance(e, ast.Name):
        if e.id not in shapes:
            raise SiteError(where, f"unknown name {e.id} in split expression")
        return e.id, shapes[e.id]
    if isinstance(e, ast.UnaryOp) and isinstance(e.op, ast.USub):
        t, sh = _split_expr(e.operand, shapes, where)
        if sh != "s":
            raise SiteError(where, "negation of a non-scalar in split expression")
        return f"(-{t})", "s"
    if isinstance(e, ast.BinOp) and isinstance(e.op, ast.Add):
        (a, sa), (b, sb) = _split_expr(e.left, shapes, where), _split_expr(e.right, shapes, where)
        if sa != "s" or sb != "s":
            raise SiteError(where, "sum of non-scalars in split expression")
        return f"({a} + {b})", "s"
    if isinstance(e, ast.Call) and isinstance(e.func, ast.Attribute):
        m = e.func.attr
        if m == "batchreduce" and len(e.args) == 2 and isinstance(e.args[1], ast.Constant) and e.args[1].value == 0:
            t, sh = _split_expr(e.args[0], shapes, where)
            if sh != "b":
                raise SiteError(where, "batchreduce of a non-batch value")
            return f"(reduce {t})", "s"
        if m == "like_bias" and len(e.args) == 1:
            t, sh = _split_expr(e.args[0], shapes, where)
            return f"(like_bias {t})", sh
        if m in ("clamp_min", "clamp_max") and len(e.args) == 1 and isinstance(e.args[0], ast.Constant) and e.args[0].value == 0:
            t, sh = _split_expr(e.func.value, shapes, where)
            f = "clampMin0" if m == "clamp_min" else "clampMax0"
            if sh == "b":
                return f"({t}.map {f})", "b"
            if sh == "br":
                return f"({t}.map fun row => row.map (·.map {f}))", "br"
            return f"({f} {t})", "s"
        if m == "nansum":
            t, sh = _split_expr(e.func.value, shapes, where)
            if sh != "br":
                raise SiteError(where, "nansum of a non batch×receptive value")
            return f"({t}.map fun row => nansum row)", "b"
    raise SiteError(where, f"unsupported split expression {ast.unparse(e)[:100]}")


ROUTES_HEADER = """/-! GENERATED by harness/sites.py from inferno/learn/trainers/*.py — do not edit.

The `match (…, …)` routing tables (which partial update is handed to the updater as the potentiating
part and which as the depressing part), their subject conditions, and the `(pos, neg)` clamp splits
of the kernel and homeostasis trainers, one definition per site, polymorphic in the scalar type
(core Lean only: executed over `Float` by drivers, instantiated at `ℝ` by the glue theorems). -/
set_option linter.unusedVariables false
namespace InfernoVerif.Gen.Routes

/-- `x.clamp_min(0.0)` -/
def clampMin0 {α : Type} [Max α] [Zero α] (x : α) : α := max x 0
/-- `x.clamp_max(0.0)` -/
def clampMax0 {α : Type} [Min α] [Zero α] (x : α) : α := min x 0
/-- `x.nansum(dim=-1)` of one row: NaN (`none`) entries are skipped; left-to-right sum from 0 -/
def nansum {α : Type} [Add α] [Zero α] (row : List (Option α)) : α := (row.filterMap id).foldl (· + ·) 0

"""


def extract_routes(repo: Path) -> tuple[str, dict]:
    """returns (text of Gen/Routes.lean, info {def name: {file, cls, kind, sha}})"""
    text = ROUTES_HEADER
    info = {}
    for rel in TRAINER_FILES:
        src = (repo / rel).read_text()
        tree = ast.parse(src)
        for c in [n for n in tree.body if isinstance(n, ast.ClassDef)]:
            fwd = next((n for n in c.body if isinstance(n, ast.FunctionDef) and n.name == "forward"), None)
            if fwd is None:
                continue
            k = 0
            for s in _flatten(fwd.body):
                where = f"{rel}::{c.name}.forward"
                if isinstance(s, ast.Match):
                    if not (isinstance(s.subject, ast.Tuple) and len(s.subject.elts) == 2):
                        continue
                    where += f"::match#{k}"
                    seg = ast.get_source_segment(src, s) or ""
                    sha = hashlib.sha256(seg.encode()).hexdigest()[:16]
                    c0, f0, k0 = _subject_term(s.subject.elts[0], where)
                    c1, f1, k1 = _subject_term(s.subject.elts[1], where)
                    free = f0 + [x for x in f1 if x not in f0]
                    cases = {}
                    form = None
                    target = None
                    for cs in s.cases:
                        key = _case_key(cs.pattern, where)
                        if key in cases:
                            raise SiteError(where, f"duplicate case {key}")
                        body = [b for b in cs.body if not (isinstance(b, ast.Expr) and isinstance(b.value, ast.Constant))]
                        if (len(body) == 1 and isinstance(body[0], ast.Assign) and isinstance(body[0].value, ast.Tuple)
                                and len(body[0].value.elts) == 2 and ast.unparse(body[0].targets[0]).startswith("cell.updater.")):
                            f_, tg = "parts", ast.unparse(body[0].targets[0]).split(".")[-1]
                            pos, neg = (_part_expr(x, where) for x in body[0].value.elts)
                            names = _names(body[0].value)
                            cases[key] = (f"({pos}, {neg})", names)
                        elif len(body) == 2 and all(isinstance(b, ast.Assign) and isinstance(b.targets[0], ast.Name) for b in body):
                            f_, tg = "cat", ",".join(sorted((b.targets[0].id for b in body), reverse=True))
                            asg = {b.targets[0].id: _cat_expr(b.value, where) for b in body}
                            order = sorted(asg, reverse=True)          # ("dpos", "dneg")
                            names = [n for b in body for n in _names(b.value)]
                            cases[key] = ("(" + ", ".join(asg[o] for o in order) + ")", names)
                        else:
                            raise SiteError(where, f"unsupported case body {ast.unparse(cs)[:120]}")
                        if form not in (None, f_) or target not in (None, tg):
                            raise SiteError(where, "cases of one match differ in form / target")
                        form, target = f_, tg
                    if set(cases) != {(a, b) for a in (False, True) for b in (False, True)}:
                        raise SiteError(where, f"match is not exhaustive over the four sign combinations: {sorted(cases)}")
                    names = sorted({n for _, ns in cases.values() for n in ns})
                    base = f"{c.name}_{'route' if form == 'parts' else 'join'}{k}"
                    ety = "α" if form == "parts" else "List α"
                    rty = "Option α × Option α" if form == "parts" else "List α × List α"
                    inst = "[Add α] " if form == "parts" else ""
                    doc = (f"/-- from `{rel}` :: `{c.name}.forward` :: match #{k}, subject `{ast.unparse(s.subject)}`, "
                           f"assigns `{target}` (sha256 of source segment {sha}) -/\n")
                    text += doc + f"def {base} {{α : Type}} {inst}(c0 c1 : Bool) ({' '.join(names)} : {ety}) : {rty} :=\n  match c0, c1 with\n"
                    for key in [(False, False), (False, True), (True, False), (True, True)]:
                        text += f"  | {str(key[0]).lower()}, {str(key[1]).lower()} => {cases[key][0]}\n"
                    cinst = "[Mul α] [Zero α] " + ("[LE α] [DecidableLE α] " if "ge0" in (k0, k1) else "") + \
                            ("[LT α] [DecidableLT α] " if "lt0" in (k0, k1) else "")
                    text += (f"/-- the subject of that match: `{ast.unparse(s.subject)}` -/\n"
                             f"def {c.name}_cond{k} {{α : Type}} {cinst}({' '.join(free)} : α) : Bool × Bool :=\n"
                             f"  ({c0}, {c1})\n"
                             f"def {c.name}_target{k} : String := \"{target}\"\n\n")
                    info[base] = {"file": rel, "cls": c.name, "kind": form, "sha": sha, "target": target,
                                  "subject": ast.unparse(s.subject), "names": names, "free": free}
                    k += 1
            # clamp splits: `cell.updater.<p> = (A, B)` outside any match
            in_match = {id(b) for s in _flatten(fwd.body) if isinstance(s, ast.Match) for cs in s.cases for b in _flatten(cs.body)}
            j = 0
            prev_assign = {}
            for s in _flatten(fwd.body):
                if isinstance(s, ast.Assign) and len(s.targets) == 1 and isinstance(s.targets[0], ast.Name):
                    prev_assign[s.targets[0].id] = s
                if (isinstance(s, ast.Assign) and id(s) not in in_match and isinstance(s.value, ast.Tuple) and len(s.value.elts) == 2
                        and ast.unparse(s.targets[0]).startswith("cell.updater.")):
                    if not any(isinstance(n, ast.Call) and isinstance(n.func, ast.Attribute) and n.func.attr in ("clamp_min", "clamp_max")
                               for n in ast.walk(s.value)):
                        continue                      # e.g. the `reduceOrNone` assignment after a cat-match
                    where = f"{rel}::{c.name}.forward::split#{j}"
                    tg = ast.unparse(s.targets[0]).split(".")[-1]
                    seg = ast.get_source_segment(src, s) or ""
                    pre = ""
                    params, shapes = [], {}
                    if c.name == "LinearHomeostasis":
                        shapes = {"k": "b"}
                        # the statement just before: `k = k * state.plasticity` / `k = k * -state.plasticity`
                        ka = prev_assign.get("k")
                        kt = ast.unparse(ka.value) if ka is not None else ""
                        if kt == "k * state.plasticity":
                            pre = "  let k := k.map (· * plasticity)\n"
                        elif kt == "k * -state.plasticity":
                            pre = "  let k := k.map (· * -plasticity)\n"
                        else:
                            raise SiteError(where, f"unexpected scaling of k before the split: `{kt}`")
                        seg = (ast.get_source_segment(src, ka) or "") + "\n" + seg
                        params = ["(reduce : List α → α)", "(like_bias : α → α)", "(plasticity : α)", "(k : List α)"]
                        inst = "[Mul α] [Neg α] [Max α] [Min α] [Zero α] "
                    else:
                        shapes = {"dpost": "br", "dpre": "br"}
                        params = ["(reduce : List α → α)", "(dpost dpre : List (List (Option α)))"]
                        inst = "[Add α] [Neg α] [Max α] [Min α] [Zero α] "
                    (pos, sp), (neg, sn) = (_split_expr(x, shapes, where) for x in s.value.elts)
                    sha = hashlib.sha256(seg.encode()).hexdigest()[:16]
                    base = f"{c.name}_split{j}"
                    text += (f"/-- from `{rel}` :: `{c.name}.forward` :: `cell.updater.{tg} = (…, …)` (sha256 of source segment {sha}) -/\n"
                             f"def {base} {{α : Type}} {inst}{' '.join(params)} : Option α × Option α :=\n{pre}"
                             f"  (some {pos}, some {neg})\n"
                             f"def {c.name}_splittarget{j} : String := \"{tg}\"\n\n")
                    info[base] = {"file": rel, "cls": c.name, "kind": "split", "sha": sha, "target": tg}
                    j += 1
    text += "end InfernoVerif.Gen.Routes\n"
    return text, info
