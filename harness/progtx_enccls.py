"""Statement-level translator, encoder CLASSES (DESIGN §12.5, property C19): the whole bodies of the methods of
`inferno/neural/encoders/mixins.py` (`StepTimeMixin`, `StepMixin`, `RefractoryStepMixin`, `GeneratorMixin`),
`poisson.py` (`HomogeneousPoissonEncoder`, `HomogeneousPoissonApproxEncoder`) and `special.py`
(`PoissonIntervalEncoder`) — constructors, property getters / setters, `forward` — → Lean programs over the object
`Obj` of `Gen/EncClsPrelude.lean`, regenerated on every run as `Gen/EncClsProg.lean` (core Lean only).

What is kept from the source, statement by statement and in SOURCE ORDER: every `argtest.gt / gte / lt` validation
with its limit and cast, which private attribute each statement assigns (`self.__x` inside `class C` is resolved
to `_C__x`), the `if refrac is None:` / `if self.__derive_refrac:` / `if self.__compensate_freq:` / `if value:`
branches, the calls between classes (`StepMixin.__init__(self, …)`, `RefractoryStepMixin.dt.fset(self, value)`,
`StepMixin.dt.fget(self)`: static; `self.dt`, `self.refrac`, …: DYNAMIC DISPATCH on the runtime class, translated
to a generated dispatcher `get_<name>` built from the MRO — C3 linearisation of the class statements), the
`try: … except ValueError: <roll back>; raise` of `HomogeneousPoissonEncoder.dt`'s setter, and in `forward` which
functional encoder is called with which arguments (the functional's regenerated program of
`Gen/EncoderProg.lean`; keyword → parameter by name; `generator=` is evaluated and dropped, the draws being
parameters of the generated definition exactly as in `progtx_encoder.py`).  `forward(inputs, online)` is emitted
twice, specialised to `online = True` / `False` (its body must branch on `online` at statement level).

Evaluation order: every sub-expression that can raise (attribute reads, property reads, validations, calls) is
bound by its own `let tK_ ← …` in Python's left-to-right order (A-normal form), so no Lean elaboration detail
decides which exception comes first.

Several classes in three files, so this module has its own `regenerate()` (same return shape as
`progtx.regenerate_class`).  Base classes that are not defined in the three files (`Module`) are assumed not to
define the dispatched names.  Anything outside this sub-language raises `TranslateError` naming the node; a callee
must be emitted before its caller (`METHODS` is the emission order).  `Props/C19GlueCls.lean` proves the generated
programs equal to `encCtor` / `encSet` / `encFail` of `Model/Encoder.lean` and `forward` equal to the functional
program on the arguments derived from the stored configuration.
"""
from __future__ import annotations

import ast
import hashlib
import json

import progtx_encoder
from progtx import Tx
from translate import GEN, REPO, TranslateError, lname

SRCS = ["inferno/neural/encoders/mixins.py", "inferno/neural/encoders/poisson.py", "inferno/neural/encoders/special.py"]
FUNCTIONAL = progtx_encoder.METHODS            # the functional encoders: parameter kinds and sampling sites

# kinds: rat int bool optrat gen T:rat none
LEAN_TY = {"rat": "Rat", "int": "Int", "bool": "Bool", "optrat": "Option Rat", "gen": "Option GenId", "T:rat": "List Rat",
           "spikes": "List (List Bool)"}
CAST = {"float": "rat", "int": "int"}
ARGTEST = {("gt", "rat"): "argtest_gt", ("gt", "int"): "argtest_gtI", ("gte", "rat"): "argtest_gte", ("lt", "rat"): "argtest_lt"}

# private attributes: (class whose body mentions it, attribute) -> (field of Obj, kind)
FIELDS = {
    ("StepTimeMixin", "__step_time"): ("step_time", "rat"),
    ("StepMixin", "__num_steps"): ("num_steps", "int"),
    ("RefractoryStepMixin", "__derive_refrac"): ("derive_refrac", "bool"),
    ("RefractoryStepMixin", "__refrac_time"): ("refrac_time", "rat"),
    ("GeneratorMixin", "__rng"): ("rng", "gen"),
    ("HomogeneousPoissonEncoder", "__frequency_scale"): ("frequency_scale", "rat"),
    ("HomogeneousPoissonEncoder", "__compensate_freq"): ("compensate_freq", "bool"),
    ("HomogeneousPoissonApproxEncoder", "__frequency_scale"): ("frequency_scale", "rat"),
    ("PoissonIntervalEncoder", "__frequency_scale"): ("frequency_scale", "rat"),
}
CLS = ["StepTimeMixin", "StepMixin", "RefractoryStepMixin", "GeneratorMixin", "HomogeneousPoissonEncoder",
       "HomogeneousPoissonApproxEncoder", "PoissonIntervalEncoder"]
EXTERNAL_BASES = {"Module"}                    # assumed not to define the dispatched names


def _getter(c, a, k):
    return {"cls": c, "py": a, "decorator": "property", "params": {}, "ret": k}


def _setter(c, a, k):
    return {"cls": c, "py": a, "decorator": f"{a}.setter", "params": {"value": k}, "ret": "obj"}


def _fwd(c, online):
    return {"cls": c, "py": "forward", "params": {"inputs": "T:rat"}, "fix": {"online": online}, "ret": "spikes"}


ENC_INIT = {"steps": "int", "step_time": "rat", "frequency": "rat", "generator": "gen"}
# definitions, in EMISSION ORDER (callees first).  `dispatch` = the dispatcher of `self.<name>`
METHODS = {
    "StepTimeMixin___init__": {"cls": "StepTimeMixin", "py": "__init__", "params": {"step_time": "rat"}, "ret": "obj"},
    "StepTimeMixin_dt": _getter("StepTimeMixin", "dt", "rat"),
    "StepTimeMixin_dt_setter": _setter("StepTimeMixin", "dt", "rat"),
    "RefractoryStepMixin_dt": _getter("RefractoryStepMixin", "dt", "rat"),
    "HomogeneousPoissonEncoder_dt": _getter("HomogeneousPoissonEncoder", "dt", "rat"),
    "get_dt": {"dispatch": "dt", "ret": "rat"},
    "StepMixin___init__": {"cls": "StepMixin", "py": "__init__", "params": {"steps": "int", "step_time": "rat"}, "ret": "obj"},
    "StepMixin_steps": _getter("StepMixin", "steps", "int"),
    "StepMixin_steps_setter": _setter("StepMixin", "steps", "int"),
    "get_steps": {"dispatch": "steps", "ret": "int"},
    "StepMixin_duration": _getter("StepMixin", "duration", "rat"),
    "RefractoryStepMixin___init__": {"cls": "RefractoryStepMixin", "py": "__init__",
                                     "params": {"steps": "int", "step_time": "rat", "refrac": "optrat"}, "ret": "obj"},
    "RefractoryStepMixin_dt_setter": _setter("RefractoryStepMixin", "dt", "rat"),
    "RefractoryStepMixin_refrac": _getter("RefractoryStepMixin", "refrac", "rat"),
    "RefractoryStepMixin_refrac_setter": _setter("RefractoryStepMixin", "refrac", "optrat"),
    "GeneratorMixin___init__": {"cls": "GeneratorMixin", "py": "__init__", "params": {"generator": "gen"}, "ret": "obj"},
    "GeneratorMixin_generator": _getter("GeneratorMixin", "generator", "gen"),
    "GeneratorMixin_generator_setter": _setter("GeneratorMixin", "generator", "gen"),
    "get_generator": {"dispatch": "generator", "ret": "gen"},
    "HomogeneousPoissonEncoder_refrac": _getter("HomogeneousPoissonEncoder", "refrac", "rat"),
    "get_refrac": {"dispatch": "refrac", "ret": "rat"},
    "HomogeneousPoissonEncoder_compensated": _getter("HomogeneousPoissonEncoder", "compensated", "bool"),
    "get_compensated": {"dispatch": "compensated", "ret": "bool"},
    "HomogeneousPoissonEncoder_frequency": _getter("HomogeneousPoissonEncoder", "frequency", "rat"),
    "HomogeneousPoissonApproxEncoder_frequency": _getter("HomogeneousPoissonApproxEncoder", "frequency", "rat"),
    "PoissonIntervalEncoder_frequency": _getter("PoissonIntervalEncoder", "frequency", "rat"),
    "get_frequency": {"dispatch": "frequency", "ret": "rat"},
    "HomogeneousPoissonEncoder___init__": {"cls": "HomogeneousPoissonEncoder", "py": "__init__", "ret": "obj",
                                           "params": {"steps": "int", "step_time": "rat", "frequency": "rat",
                                                      "refrac": "optrat", "compensate": "bool", "generator": "gen"}},
    "HomogeneousPoissonEncoder_dt_setter": _setter("HomogeneousPoissonEncoder", "dt", "rat"),
    "HomogeneousPoissonEncoder_compensated_setter": _setter("HomogeneousPoissonEncoder", "compensated", "bool"),
    "HomogeneousPoissonEncoder_frequency_setter": _setter("HomogeneousPoissonEncoder", "frequency", "rat"),
    "HomogeneousPoissonEncoder_refrac_setter": _setter("HomogeneousPoissonEncoder", "refrac", "optrat"),
    "HomogeneousPoissonEncoder_forward_offline": _fwd("HomogeneousPoissonEncoder", False),
    "HomogeneousPoissonEncoder_forward_online": _fwd("HomogeneousPoissonEncoder", True),
    "HomogeneousPoissonApproxEncoder___init__": {"cls": "HomogeneousPoissonApproxEncoder", "py": "__init__", "ret": "obj",
                                                 "params": ENC_INIT},
    "HomogeneousPoissonApproxEncoder_frequency_setter": _setter("HomogeneousPoissonApproxEncoder", "frequency", "rat"),
    "HomogeneousPoissonApproxEncoder_forward_offline": _fwd("HomogeneousPoissonApproxEncoder", False),
    "HomogeneousPoissonApproxEncoder_forward_online": _fwd("HomogeneousPoissonApproxEncoder", True),
    "PoissonIntervalEncoder___init__": {"cls": "PoissonIntervalEncoder", "py": "__init__", "ret": "obj", "params": ENC_INIT},
    "PoissonIntervalEncoder_frequency_setter": _setter("PoissonIntervalEncoder", "frequency", "rat"),
    "PoissonIntervalEncoder_forward_offline": _fwd("PoissonIntervalEncoder", False),
    "PoissonIntervalEncoder_forward_online": _fwd("PoissonIntervalEncoder", True),
}

HEADER = """import InfernoVerif.Gen.EncClsPrelude
/-! GENERATED by harness/progtx_enccls.py from inferno/neural/encoders/{mixins,poisson,special}.py (the encoder
classes: constructors, property getters / setters, `forward`) — do not edit.
Whole method bodies as programs over the object `Obj`; an exception carries the object at the raise; `get_<name>`
is the dynamic dispatch of `self.<name>` on the runtime class (from the MRO).  Vocabulary: Gen/EncClsPrelude.lean;
`forward` calls the regenerated functional encoders of Gen/EncoderProg.lean. -/
set_option linter.unusedVariables false
namespace InfernoVerif.Gen.EncClsProg
open InfernoVerif.Enc InfernoVerif.Gen InfernoVerif.Gen.EncoderPrelude InfernoVerif.Gen.EncClsPrelude
"""


# ---------------------------------------------------------------------- class table, MRO
def c3(classes: dict, cls: str) -> list[str]:
    """C3 linearisation over the classes of the three files (external bases dropped)"""
    bases = []
    for b in classes[cls][1].bases:
        nm = ast.unparse(b)
        if nm in classes:
            bases.append(nm)
        elif nm not in EXTERNAL_BASES:
            raise TranslateError(f"{classes[cls][0]}::{cls}", f"unknown base class {nm}")
    seqs = [c3(classes, b) for b in bases] + [list(bases)]
    out = [cls]
    while any(seqs):
        seqs = [s for s in seqs if s]
        for s in seqs:
            head = s[0]
            if not any(head in t[1:] for t in seqs):
                break
        else:
            raise TranslateError(f"{classes[cls][0]}::{cls}", "inconsistent MRO")
        out.append(head)
        seqs = [[x for x in s if x != head] for s in seqs]
    return out


def decorators(f: ast.FunctionDef) -> list[str]:
    return [ast.unparse(d) for d in f.decorator_list]


class EncClsTx(Tx):
    SRC = SRCS
    CLS = None
    METHODS = METHODS
    LEAN_TY = LEAN_TY
    STATE_TY = "Obj"
    DROPPED_PARAMS = set()
    OUT = "EncClsProg.lean"
    NAMESPACE = "InfernoVerif.Gen.EncClsProg"
    HEADER = HEADER
    CLASSES: dict = {}           # filled by `regenerate`: class name -> (source file, ast.ClassDef)
    EMITTED: list = []           # keys already emitted

    def __init__(self, name: str, fdef, sigs: dict):
        self.name, self.fdef, self.sigs = name, fdef, sigs
        self.spec = self.METHODS[name]
        self.CLS = self.spec.get("cls")
        self.SRC = self.CLASSES[self.CLS][0] if self.CLS else "<dispatch>"
        self.tmp = 0
        self.pre: list[str] = []         # hoisted `let tK_ ← …` of the statement being translated
        self.sample_params: list = []    # (name, lean type) added by the functional call of `forward`
        self.is_proc = self.spec["ret"] == "obj"

    def err(self, node, msg):
        raise TranslateError(f"{self.SRC}::{self.CLS}.{self.spec.get('py')}:{getattr(node, 'lineno', '?')}",
                             f"{msg}: {ast.unparse(node)[:140] if isinstance(node, ast.AST) else node}")

    # ------------------------------------------------------------------ resolution
    def find_key(self, node, cls: str, attr: str, what: str) -> str:
        """the generated definition for `attr` (what = getter / setter / method) looked up from class `cls` along its MRO"""
        for c in c3(self.CLASSES, cls):
            defs = [f for f in self.CLASSES[c][1].body if isinstance(f, ast.FunctionDef) and f.name == attr]
            if not defs:
                continue
            want = {"getter": "property", "setter": f"{attr}.setter", "method": None}[what]
            for key, spec in self.METHODS.items():
                if spec.get("cls") == c and spec.get("py") == attr and spec.get("decorator") == want and "fix" not in spec:
                    if not any(decorators(f) == ([want] if want else []) for f in defs):
                        self.err(node, f"{c}.{attr}: no definition with decorators {want}")
                    if key not in self.EMITTED:
                        self.err(node, f"{key} is used before it is emitted (METHODS order)")
                    return key
            self.err(node, f"{attr} resolves to {c}.{attr} ({what}), which is not translated")
        return ""

    def dispatcher(self, node, attr: str) -> str:
        key = f"get_{attr}"
        if self.METHODS.get(key, {}).get("dispatch") != attr:
            self.err(node, f"self.{attr}: no dispatcher for this name")
        if key not in self.EMITTED:
            self.err(node, f"{key} is used before it is emitted (METHODS order)")
        return key

    def bind(self, rhs: str) -> str:
        t = f"t{self.tmp}_"
        self.tmp += 1
        self.pre.append(f"let {t} ← {rhs}")
        return t

    def flush(self, d) -> str:
        out = "".join(f"{self.ind(d)}{line}\n" for line in self.pre)
        self.pre = []
        return out

    # ------------------------------------------------------------------ expressions
    def num(self, n):
        if isinstance(n, ast.Constant) and type(n.value) in (int, float) and not isinstance(n.value, bool):
            return n.value
        return None

    def lit(self, n, kind: str) -> str:
        v = self.num(n)
        if v is None or v != int(v) or v < 0 or kind not in ("rat", "int"):
            self.err(n, f"unsupported literal for kind {kind}")
        return f"({int(v)} : {LEAN_TY[kind]})"

    def static_target(self, f) -> tuple | None:
        """`C.attr.fget` / `C.attr.fset` / `C.__init__` -> (C, attr, what)"""
        if isinstance(f, ast.Attribute) and f.attr in ("fget", "fset") and isinstance(f.value, ast.Attribute) \
                and isinstance(f.value.value, ast.Name) and f.value.value.id in self.CLASSES:
            return f.value.value.id, f.value.attr, ("getter" if f.attr == "fget" else "setter")
        if isinstance(f, ast.Attribute) and f.attr == "__init__" and isinstance(f.value, ast.Name) and f.value.id in self.CLASSES:
            return f.value.id, "__init__", "method"
        return None

    def check_base(self, node, c: str):
        if c not in c3(self.CLASSES, self.CLS):
            self.err(node, f"{c} is not {self.CLS} or one of its bases")

    def ex(self, n, env):
        if isinstance(n, ast.Constant):
            if isinstance(n.value, bool):
                return ("true" if n.value else "false"), "bool"
            if n.value is None:
                return "none", "none"
            self.err(n, "literal in a position where its type is not determined")
        if isinstance(n, ast.Name):
            if n.id not in env:
                self.err(n, "unknown name")
            return env[n.id]
        if isinstance(n, ast.Attribute) and isinstance(n.value, ast.Name) and n.value.id == "self":
            a = n.attr
            if a.startswith("__") and not a.endswith("__"):
                if (self.CLS, a) not in FIELDS:
                    self.err(n, f"unknown private attribute _{self.CLS}{a}")
                fld, k = FIELDS[(self.CLS, a)]
                return self.bind(f"getattr self self.{fld}"), k
            key = self.dispatcher(n, a)
            return self.bind(f"{key} self"), self.METHODS[key]["ret"]
        if isinstance(n, ast.BinOp) and isinstance(n.op, ast.Mult):
            a, ka = self.ex(n.left, env)
            b, kb = self.ex(n.right, env)
            if (ka, kb) == ("rat", "rat"):
                return f"({a} * {b})", "rat"
            if (ka, kb) == ("int", "rat"):
                return f"(({a} : Rat) * {b})", "rat"
            if (ka, kb) == ("rat", "T:rat"):
                return f"(rmulS1Q {a} {b})", "T:rat"
            self.err(n, f"unsupported product of kinds {ka}, {kb}")
        if isinstance(n, ast.IfExp):
            t = n.test
            if isinstance(t, ast.Compare) and len(t.ops) == 1 and isinstance(t.ops[0], ast.Is) and isinstance(t.left, ast.Name) \
                    and isinstance(t.comparators[0], ast.Constant) and t.comparators[0].value is None \
                    and env.get(t.left.id, ("", ""))[1] == "optrat":
                x, xv = t.left.id, env[t.left.id][0]
                arms = []
                for node, e in ((n.body, env), (n.orelse, {**env, x: (xv, "rat")})):
                    saved, self.pre = self.pre, []
                    v, k = self.ex(node, e)
                    if k != "rat":
                        self.err(n, f"conditional expression of kind {k}")
                    lines, self.pre = self.pre, saved
                    arms.append("(do " + "; ".join(lines + [f"pure {v}"]) + ")")
                return self.bind(f"(match {xv} with | none => {arms[0]} | some {xv} => {arms[1]} : M Rat)"), "rat"
            self.err(n, "unsupported conditional expression")
        if isinstance(n, ast.Call):
            return self.call(n, env)
        self.err(n, "unsupported expression")

    def call(self, n: ast.Call, env):
        f = n.func
        ftxt = ast.unparse(f)
        if ftxt == "bool" and len(n.args) == 1 and not n.keywords:
            v, k = self.ex(n.args[0], env)
            if k == "bool":
                return f"(pyBool {v})", "bool"
            self.err(n, f"bool() of kind {k}")
        if ftxt in ("argtest.gt", "argtest.gte", "argtest.lt") and len(n.args) == 4 and not n.keywords \
                and isinstance(n.args[0], ast.Constant) and isinstance(n.args[0].value, str):
            cast = CAST.get(ast.unparse(n.args[3]))
            prim = ARGTEST.get((f.attr, cast))
            if prim is None:
                self.err(n, "unsupported validation / cast")
            v, k = self.ex(n.args[1], env)
            if k != cast:
                self.err(n, f"value of kind {k} cast with {ast.unparse(n.args[3])}")
            return self.bind(f"{prim} self {v} {self.lit(n.args[2], cast)}"), cast
        tgt = self.static_target(f)
        if tgt is not None and tgt[2] == "getter":
            c, attr, _ = tgt
            self.check_base(n, c)
            if [ast.unparse(a) for a in n.args] != ["self"] or n.keywords:
                self.err(n, "fget called on something else than self")
            key = self.find_key(n, c, attr, "getter")
            if not key:
                self.err(n, f"{c} has no property {attr}")
            return self.bind(f"{key} self"), self.METHODS[key]["ret"]
        self.err(n, "unsupported call")

    # ------------------------------------------------------------------ statements
    def proc_call(self, c: ast.Call, env) -> str | None:
        """`C.__init__(self, …)` / `C.attr.fset(self, v)` -> the text of the call (an `M Obj`)"""
        tgt = self.static_target(c.func)
        if tgt is None or tgt[2] == "getter":
            return None
        cl, attr, what = tgt
        if not c.args or ast.unparse(c.args[0]) != "self":
            self.err(c, "static call on something else than self")
        if cl in EXTERNAL_BASES:
            return None
        self.check_base(c, cl)
        key = self.find_key(c, cl, attr, what)
        if not key:
            self.err(c, f"{cl} has no {attr}")
        spec, sig = self.METHODS[key], self.sigs[key]
        given = self.kwargs(ast.Call(func=c.func, args=c.args[1:], keywords=c.keywords), sig["order"])
        args = []
        for p in sig["order"]:
            if p not in given:
                self.err(c, f"missing argument {p}")
            v, k = self.ex(given.pop(p), env)
            want = spec["params"][p]
            if k == "none" and want in ("optrat", "gen"):
                v = "none"
            elif k == "rat" and want == "optrat":
                v = f"(some {v})"
            elif k != want:
                self.err(c, f"argument {p} of {key}: kind {k}, expected {want}")
            args.append(v)
        if given:
            self.err(c, f"unknown arguments {list(given)}")
        return f"{key} self{''.join(' ' + a for a in args)}"

    def block(self, stmts, env, alias, d, cont) -> str:
        if not stmts:
            return cont(env, alias, d)
        s, rest = stmts[0], stmts[1:]
        I = self.ind(d)
        nxt = lambda e, a, dd: self.block(rest, e, a, dd, cont)   # noqa: E731
        if isinstance(s, ast.Expr) and isinstance(s.value, ast.Constant) and isinstance(s.value.value, str):
            return nxt(env, alias, d)
        if isinstance(s, ast.Return):
            if self.is_proc or s.value is None:
                self.err(s, "unsupported return")
            if rest:
                self.err(rest[0], "statement after return")
            if self.spec["ret"] == "spikes":
                return self.functional_call(s.value, env, d)
            v, k = self.ex(s.value, env)
            if k != self.spec["ret"]:
                self.err(s, f"returns kind {k}, expected {self.spec['ret']}")
            return self.flush(d) + f"{I}pure {v}\n"
        if isinstance(s, ast.Raise):
            if s.exc is None and alias.get("handler"):
                if rest:
                    self.err(rest[0], "statement after raise")
                return f"{I}throw (Err.{alias['handler']}, self)\n"
            self.err(s, "unsupported raise")
        if isinstance(s, ast.Expr) and isinstance(s.value, ast.Call):
            c = s.value
            if ast.unparse(c) == "Module.__init__(self)" and self.is_proc:
                return f"{I}let self := Module_init self\n" + nxt(env, alias, d)
            call = self.proc_call(c, env)
            if call is None or not self.is_proc:
                self.err(s, "unsupported call statement")
            return self.flush(d) + f"{I}let self ← {call}\n" + nxt(env, alias, d)
        if isinstance(s, ast.Assign) and len(s.targets) == 1:
            t = s.targets[0]
            if isinstance(t, ast.Attribute) and isinstance(t.value, ast.Name) and t.value.id == "self":
                if not self.is_proc:
                    self.err(s, "assignment to an attribute in a getter / forward")
                if (self.CLS, t.attr) not in FIELDS:
                    self.err(s, f"assignment to an unknown attribute of class {self.CLS}")
                fld, want = FIELDS[(self.CLS, t.attr)]
                v, k = self.ex(s.value, env)
                if k == "none" and want == "gen":
                    v = "none"
                elif k != want:
                    self.err(s, f"{t.attr} assigned a value of kind {k}")
                return self.flush(d) + f"{I}let self := {{ self with {fld} := some {v} }}\n" + nxt(env, alias, d)
            if isinstance(t, ast.Name) and t.id == "_":
                v, k = self.ex(s.value, env)
                if not self.pre:
                    self.err(s, "dropped value of a pure expression")
                return self.flush(d) + nxt(env, alias, d)
            if isinstance(t, ast.Name) and t.id != "self":
                if t.id in env:
                    self.err(s, "local rebound")
                v, k = self.ex(s.value, env)
                return self.flush(d) + f"{I}let {lname(t.id)} := {v}\n" + nxt({**env, t.id: (lname(t.id), k)}, alias, d)
            self.err(s, "unsupported assignment")
        if isinstance(s, ast.If):
            return self.if_stmt(s, rest, env, alias, d, cont)
        if isinstance(s, ast.Try):
            return self.try_stmt(s, rest, env, alias, d, cont)
        self.err(s, "unsupported statement")

    def if_stmt(self, s: ast.If, rest, env, alias, d, cont) -> str:
        """the statements after the `if` are the continuation of BOTH branches (duplicated)"""
        I = self.ind(d)
        after = lambda e, a, dd: self.block(rest, e, a, dd, cont)   # noqa: E731
        body, orelse, t = list(s.body), list(s.orelse), s.test
        fix = self.spec.get("fix", {})
        if isinstance(t, ast.Name) and t.id in fix:
            return self.block((body if fix[t.id] else orelse) + rest, env, alias, d, cont)
        if isinstance(t, ast.Compare) and len(t.ops) == 1 and isinstance(t.ops[0], ast.Is) and isinstance(t.left, ast.Name) \
                and isinstance(t.comparators[0], ast.Constant) and t.comparators[0].value is None \
                and env.get(t.left.id, ("", ""))[1] == "optrat":
            x, xv = t.left.id, env[t.left.id][0]
            return (f"{I}match {xv} with\n{I}| none =>\n" + self.block(body, env, alias, d + 1, after)
                    + f"{I}| some {xv} =>\n" + self.block(orelse, {**env, x: (xv, "rat")}, alias, d + 1, after))
        c, k = self.ex(t, env)
        if k != "bool":
            self.err(t, f"condition of kind {k}")
        return (self.flush(d) + f"{I}if {c} then\n" + self.block(body, env, alias, d + 1, after)
                + f"{I}else\n" + self.block(orelse, env, alias, d + 1, after))

    def try_stmt(self, s: ast.Try, rest, env, alias, d, cont) -> str:
        """`try: body  except <E>: handler…; raise` — the body binds no local that is used afterwards"""
        I = self.ind(d)
        if s.orelse or s.finalbody or len(s.handlers) != 1 or not self.is_proc:
            self.err(s, "unsupported try statement")
        h = s.handlers[0]
        exc = ast.unparse(h.type) if h.type is not None else None
        if exc not in ("ValueError",) or h.name is not None:
            self.err(s, "unsupported exception handler")
        if not (h.body and isinstance(h.body[-1], ast.Raise) and h.body[-1].exc is None):
            self.err(s, "the handler must end with a bare raise")
        for x in ast.walk(s):
            if isinstance(x, ast.Return):
                self.err(x, "return inside try")
        leaf = lambda e, a, dd: f"{self.ind(dd)}pure self\n"   # noqa: E731
        for st in s.body:
            if isinstance(st, ast.Assign) and not (isinstance(st.targets[0], ast.Name) and st.targets[0].id == "_") \
                    and not isinstance(st.targets[0], ast.Attribute):
                self.err(st, "local bound inside try")
        inner = self.block(list(s.body), env, alias, d + 2, leaf)
        out = f"{I}match (do\n{inner}{I}    : M Obj) with\n"
        out += f"{I}| .ok self =>\n" + self.block(rest, env, alias, d + 1, cont)
        out += f"{I}| .error (Err.{exc}, self) =>\n" + self.block(list(h.body), env, {**alias, "handler": exc}, d + 1, leaf)
        out += f"{I}| .error e_ => throw e_\n"
        return out

    def functional_call(self, n, env, d) -> str:
        """`return nf.<f>(rates, steps=…, step_time=…, …, generator=…)`: the regenerated program of `f`"""
        I = self.ind(d)
        if not (isinstance(n, ast.Call) and isinstance(n.func, ast.Attribute) and isinstance(n.func.value, ast.Name)
                and n.func.value.id == "nf" and n.func.attr in FUNCTIONAL):
            self.err(n, "forward must return the call of a translated functional encoder")
        fname = n.func.attr
        fspec = FUNCTIONAL[fname]
        order = list(fspec["params"]) + ["generator"]
        given = self.kwargs(n, order)
        vals = {}
        for p in list(given):                         # Python evaluates the arguments in the order written
            v, k = self.ex(given[p], env)
            vals[p] = (v, k)
        args = []
        for p, want in fspec["params"].items():
            if p not in vals:
                if want == "optrat":
                    args.append("none")
                    continue
                if p == "compensate":
                    self.err(n, "compensate left to its default")
                self.err(n, f"missing argument {p}")
            v, k = vals[p]
            if (k, want) == ("int", "nat"):
                v = self.bind(f"asNat self {v}")
            elif (k, want) == ("rat", "optrat"):
                v = f"(some {v})"
            elif k != want:
                self.err(n, f"argument {p} of {fname}: kind {k}, expected {want}")
            args.append(v)
        if vals.get("generator", ("", ""))[1] != "gen":
            self.err(n, "the generator is not handed on")
        ns = len(fspec["samples"])
        sp = [(f"sample{i}", progtx_encoder.LEAN_TY[k]) for i, (_, k) in enumerate(fspec["samples"])]
        if "yield" in fspec:
            (_, k), = fspec["loop_samples"]
            sp.append((f"samples{ns}", f"List ({progtx_encoder.LEAN_TY[k]})"))
        self.sample_params = sp
        call = f"EncoderProg.{fname} {' '.join(args)} {' '.join(nm for nm, _ in sp)}"
        return self.flush(d) + f"{I}liftF self ({call})\n"

    # ------------------------------------------------------------------ whole definitions
    def emit_dispatch(self) -> str:
        attr = self.spec["dispatch"]
        out = f"def {self.name} (self : Obj) : M ({LEAN_TY[self.spec["ret"]]}) :=\n  match self.cls with\n"
        for c in CLS:
            self.CLS = c
            key = self.find_key(self.CLASSES[c][1], c, attr, "getter")
            if key and self.METHODS[key]["ret"] != self.spec["ret"]:
                self.err(self.CLASSES[c][1], f"{key}: kind differs from the dispatcher's")
            out += f"  | .{c} => {key + ' self' if key else 'noAttr self'}\n"
        self.CLS = None
        return out

    def emit(self) -> str:
        if "dispatch" in self.spec:
            return self.emit_dispatch()
        spec, sig = self.spec, self.sigs[self.name]
        want = list(spec["params"]) + list(spec.get("fix", {}))
        if sig["order"] != want:
            raise TranslateError(f"{self.SRC}::{self.CLS}.{spec['py']}", f"signature changed: {sig['order']} (expected {want})")
        env = {p: (lname(p), k) for p, k in spec["params"].items()}
        if self.is_proc:
            tail = lambda e, a, dd: f"{self.ind(dd)}pure self\n"   # noqa: E731
        else:
            tail = lambda e, a, dd: self.err(self.fdef, "falls off the end without returning")   # noqa: E731
        body = self.block(list(self.fdef.body), env, {}, 1, tail)
        ptxt = "".join(f" ({lname(p)} : {LEAN_TY[k]})" for p, k in spec["params"].items())
        ptxt += "".join(f" ({nm} : {ty})" for nm, ty in self.sample_params)
        ret = "Obj" if self.is_proc else f"({LEAN_TY[spec['ret']]})"
        return f"def {self.name} (self : Obj){ptxt} : M {ret} := do\n" + body


def signature(f: ast.FunctionDef, where: str) -> dict:
    a = f.args
    if a.vararg or a.kwarg or a.posonlyargs:
        raise TranslateError(where, "unsupported signature")
    pos = [x.arg for x in a.args]
    if not pos or pos[0] != "self":
        raise TranslateError(where, "first parameter is not self")
    return {"order": pos[1:] + [x.arg for x in a.kwonlyargs], "defaults": {}}


def regenerate() -> dict:
    """regenerates Gen/EncClsProg.lean; same return shape as `progtx.regenerate_class`"""
    T = EncClsTx
    classes, srcs = {}, {}
    for src in SRCS:
        text = (REPO / src).read_text()
        srcs[src] = text
        for n in ast.parse(text).body:
            if isinstance(n, ast.ClassDef):
                if n.name in classes:
                    raise TranslateError(src, f"class {n.name} defined twice")
                classes[n.name] = (src, n)
    for c in CLS:
        if c not in classes:
            raise TranslateError(str(SRCS), f"class {c} not found")
    extra = [c for c in classes if c not in CLS]
    if extra:
        raise TranslateError(str(SRCS), f"classes not known to the translator (dispatch would be incomplete): {extra}")
    # every private attribute assigned anywhere in a class must be a known field (nothing hidden from the state)
    for c, (src, node) in classes.items():
        for x in ast.walk(node):
            if isinstance(x, ast.Attribute) and isinstance(x.value, ast.Name) and x.value.id == "self" \
                    and x.attr.startswith("__") and not x.attr.endswith("__") and (c, x.attr) not in FIELDS:
                raise TranslateError(f"{src}::{c}", f"unknown private attribute {x.attr}")
        # every method of the class is translated (or is a getter / setter / __init__ / forward listed in METHODS)
        for f in node.body:
            if isinstance(f, ast.FunctionDef):
                decs = decorators(f)
                if not any(s.get("cls") == c and s.get("py") == f.name and ([s["decorator"]] if s.get("decorator") else []) == decs
                           for s in T.METHODS.values()):
                    raise TranslateError(f"{src}::{c}.{f.name}", f"method (decorators {decs}) is not in METHODS")
    T.CLASSES, T.EMITTED = classes, []
    fdefs, sigs = {}, {}
    for k, s in T.METHODS.items():
        if "dispatch" in s:
            fdefs[k] = None
            continue
        src, node = classes[s["cls"]]
        where = f"{src}::{s['cls']}.{s['py']}"
        want = [s["decorator"]] if s.get("decorator") else []
        found = [f for f in node.body if isinstance(f, ast.FunctionDef) and f.name == s["py"] and decorators(f) == want]
        if len(found) != 1:
            raise TranslateError(where, f"{len(found)} definitions with decorators {want}")
        fdefs[k] = found[0]
        sigs[k] = signature(found[0], where)
    text = T.HEADER
    info = {}
    for k, s in T.METHODS.items():
        if "dispatch" in s:
            mros = "; ".join(f"{c}: {' → '.join(c3(classes, c))}" for c in CLS)
            sha = hashlib.sha256(mros.encode()).hexdigest()[:16]
            text += (f"\n/-- dynamic dispatch of `self.{s['dispatch']}` on the runtime class: the first class of the MRO that "
                     f"defines the property (sha256 of the MROs {sha}) -/\n")
        else:
            src = classes[s["cls"]][0]
            seg = ast.get_source_segment(srcs[src], fdefs[k]) or ""
            sha = hashlib.sha256(seg.encode()).hexdigest()[:16]
            dec = f" (`@{s['decorator']}`)" if s.get("decorator") else ""
            fix = "".join(f", specialised to {p} = {v}" for p, v in s.get("fix", {}).items())
            text += f"\n/-- from `{src}` :: `{s['cls']}.{s['py']}`{dec}{fix} (sha256 of source segment {sha}) -/\n"
        text += T(k, fdefs[k], sigs).emit()
        T.EMITTED.append(k)
        info[k] = sha
    text += f"\nend {T.NAMESPACE}\n"
    p = GEN / T.OUT
    changed = not p.exists() or p.read_text() != text
    if changed:
        p.write_text(text)
    return {"functions": info, "rewritten": changed}


if __name__ == "__main__":
    print(json.dumps(regenerate(), indent=1))
