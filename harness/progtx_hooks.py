"""Statement-level translator, hook classes (DESIGN §12.5, property C16): the hook-arming logic of
`inferno/core/infrastructure.py` — module-level `_detach_handles`, `Hook.trainexec` / `evalexec` (getters and
setters), `Hook.registered`, `Hook.__wrapped_prehook`, `Hook.__wrapped_posthook`, `Hook.register`,
`Hook.deregister`, `StateHook.register`, `StateHook.forward` — → Lean programs over the world `HW`
(`Gen/HookPrelude.lean`), regenerated on every run as `Gen/HookProg.lean` (core Lean only).

What is kept from the source, statement by statement and in SOURCE ORDER: the `registered` tests and the
`RuntimeError` of a second `Hook.register`, the `argtest.instance` check, the two conditional registrations
(`weakref.ref(self)`, the weak-reference lambda, the `**kwargs` of each position, the handle stored in the
private field), the `if self.__finalizer: self.__finalizer.detach()` / `weakref.finalize(self,
_detach_handles, pre, post)` sequence, the loop of `_detach_handles`, the field resets of `deregister`, the
mode gates `self.trainexec and module.training` / `self.evalexec and not module.training` (through the property
getters) and the `registered or force` / `ignore_mode` / `elif` cascade of `StateHook.forward`.

Decisions instead of user code: `return self._prehook_call(module, *args, **kwargs)` returns `some Pos.pre`
("the prehook callable ran and its result was returned"), falling off the end of a wrapped hook returns `none`;
`self.hook(self.module)` in `StateHook.forward` increments the returned count of hook runs.

Several classes and a module-level function are translated, so this module has its own `regenerate()` (same
return shape as `progtx.regenerate_class`); attribute / method names are resolved along the base classes
*defined in the source file* (`StateHook → Module, ContextualHook → Hook`; `torch.nn.Module` / `ABC` are assumed
not to define `registered`, `register`, `trainexec`, `evalexec`).  Exceptions keep Python's semantics: the
programs live in `Except (Err × state) _`.  `Props/C16GlueProg.lean` proves the generated programs equal to
`Hooks.step` (`Model/Hooks.lean`).  Anything outside this sub-language raises `TranslateError` naming the node.
"""
from __future__ import annotations

import ast
import hashlib
import json
import re

import progtx
from progtx import Tx
from translate import GEN, REPO, TranslateError, lname

SRC = "inferno/core/infrastructure.py"

# kinds: bool unit ran count handles | module weakref callback kwargs fin optfin opthandle:<pos> handle:<pos>
#        optcallable:<pos> none
LEAN_TY = {"bool": "Bool", "unit": "Unit", "ran": "Option Pos", "count": "Nat", "handles": "List (Option Handle)"}

# functions, in emission order (callees first).  key = name of the generated definition; `cls` None = module level;
# `decorator` picks a property getter / setter; `state` = type of the threaded state; `vararg` = (name, kind) of a
# translated `*name` parameter; `passthrough` = `*args` / `**kwargs` only handed on to the user callable
METHODS = {
    "_detach_handles": {"cls": None, "py": "_detach_handles", "state": "TorchModule", "params": {},
                        "vararg": ("handles", "handles"), "ret": "unit"},
    "Hook_trainexec": {"cls": "Hook", "py": "trainexec", "decorator": "property", "params": {}, "ret": "bool"},
    "Hook_trainexec_setter": {"cls": "Hook", "py": "trainexec", "decorator": "trainexec.setter",
                              "params": {"value": "bool"}, "ret": "unit"},
    "Hook_evalexec": {"cls": "Hook", "py": "evalexec", "decorator": "property", "params": {}, "ret": "bool"},
    "Hook_evalexec_setter": {"cls": "Hook", "py": "evalexec", "decorator": "evalexec.setter",
                             "params": {"value": "bool"}, "ret": "unit"},
    "Hook_registered": {"cls": "Hook", "py": "registered", "decorator": "property", "params": {}, "ret": "bool"},
    "Hook___wrapped_prehook": {"cls": "Hook", "py": "__wrapped_prehook", "params": {}, "ret": "ran",
                               "passthrough": ("args", "kwargs")},
    "Hook___wrapped_posthook": {"cls": "Hook", "py": "__wrapped_posthook", "params": {}, "ret": "ran",
                                "passthrough": ("args", "kwargs")},
    "Hook_register": {"cls": "Hook", "py": "register", "params": {}, "ret": "unit"},
    "Hook_deregister": {"cls": "Hook", "py": "deregister", "params": {}, "ret": "unit"},
    "StateHook_register": {"cls": "StateHook", "py": "register", "params": {}, "ret": "unit"},
    "StateHook_forward": {"cls": "StateHook", "py": "forward", "params": {"force": "bool", "ignore_mode": "bool"},
                          "ret": "count"},
}
# the `module` parameter of `Hook.register` / the wrapped hooks is THE module of the world (`self.module`)
DROPPED_PARAMS = {"module"}

# private fields of class Hook: attribute -> (field of `Hooks.Hook`, kind when read)
HOOK_FIELDS = {
    "__prehook_handle": ("preH", "opthandle:pre"), "__posthook_handle": ("postH", "opthandle:post"),
    "__finalizer": ("fin", "optfin"), "__call_train": ("trainexec", "bool"), "__call_eval": ("evalexec", "bool"),
}
# read-only attributes of class Hook set by the constructor: attribute -> (text, kind)
HOOK_CONSTS = {
    "_prehook_call": ("self.obj.cfg.hasPre", "optcallable:pre"), "_posthook_call": ("self.obj.cfg.hasPost", "optcallable:post"),
    "__prehook_kwargs": ("self.obj.cfg.prependPre", "kwargs"), "__posthook_kwargs": ("self.obj.cfg.prependPost", "kwargs"),
}
POS = {"pre": "Pos.pre", "post": "Pos.post"}
REGISTER = {"register_forward_pre_hook": "pre", "register_forward_hook": "post"}
COUNT = "hook_calls"            # pseudo-local of a `count` method: number of `self.hook(self.module)` runs so far

HEADER = """import InfernoVerif.Gen.HookPrelude
/-! GENERATED by harness/progtx_hooks.py from inferno/core/infrastructure.py (`_detach_handles`, class `Hook`,
class `StateHook`) — do not edit.
Whole bodies as programs over the world `HW` (module-level functions: over `TorchModule`); an exception carries
the state at the raise.  Vocabulary: Gen/HookPrelude.lean. -/
set_option linter.unusedVariables false
namespace InfernoVerif.Gen.HookProg
open InfernoVerif.Hooks InfernoVerif.Gen.HookPrelude
"""


def class_map(tree) -> dict:
    return {n.name: n for n in tree.body if isinstance(n, ast.ClassDef)}


def mro(classes: dict, cls: str) -> list[str]:
    """base classes defined in the source file, depth first, left to right (the MRO of these hierarchies)"""
    out = [cls]
    for b in classes[cls].bases:
        if isinstance(b, ast.Name) and b.id in classes:
            for c in mro(classes, b.id):
                if c not in out:
                    out.append(c)
    return out


def is_getter(f: ast.FunctionDef) -> bool:
    return [ast.unparse(d) for d in f.decorator_list] == ["property"]


class HookTx(Tx):
    SRC = SRC
    CLS = "Hook"                 # per instance: the class of the method being translated (None: module level)
    METHODS = METHODS
    LEAN_TY = LEAN_TY
    STATE_TY = "HW"
    DROPPED_PARAMS = DROPPED_PARAMS
    OUT = "HookProg.lean"
    NAMESPACE = "InfernoVerif.Gen.HookProg"
    HEADER = HEADER
    CLASSES: dict = {}           # filled by `regenerate`: class name -> ast.ClassDef

    def __init__(self, name: str, fdef: ast.FunctionDef, sigs: dict):
        super().__init__(name, fdef, sigs)
        self.CLS = self.spec["cls"]
        self.STATE_TY = self.spec.get("state", "HW")
        self.detach_ok = False

    def err(self, node, msg):
        where = f"{self.SRC}::{(self.CLS + '.') if self.CLS else ''}{self.spec['py']}:{getattr(node, 'lineno', '?')}"
        raise TranslateError(where, f"{msg}: {ast.unparse(node)[:140] if isinstance(node, ast.AST) else node}")

    @property
    def monad(self) -> str:
        return f"Except (Err × {self.STATE_TY})"

    # ------------------------------------------------------------------ name resolution
    def self_attr(self, n) -> str | None:
        if self.CLS is not None and isinstance(n, ast.Attribute) and isinstance(n.value, ast.Name) and n.value.id == "self":
            return n.attr
        return None

    def resolve(self, node, attr: str, getter: bool, start: str | None = None) -> str:
        """the generated definition `self.<attr>` refers to: first class along the bases that defines `attr`"""
        for c in mro(self.CLASSES, start or self.CLS):
            defs = [f for f in self.CLASSES[c].body if isinstance(f, ast.FunctionDef) and f.name == attr]
            if not defs:
                if any(isinstance(t, ast.Name) and t.id == attr for s in self.CLASSES[c].body if isinstance(s, ast.Assign)
                       for t in s.targets):
                    self.err(node, f"{attr} is a class attribute of {c}")
                continue
            for key, spec in self.METHODS.items():
                if spec["cls"] == c and spec["py"] == attr and \
                        (spec.get("decorator") == "property") == getter and not spec.get("decorator", "").endswith(".setter"):
                    if getter != any(is_getter(f) for f in defs):
                        self.err(node, f"{c}.{attr}: property / method mismatch")
                    return key
            self.err(node, f"{attr} resolves to {c}.{attr}, which is not translated")
        self.err(node, f"{attr} is not defined by a class of the source file")

    def is_private(self, attr: str) -> bool:
        return attr.startswith("__") and not attr.endswith("__")

    def the_module(self, n, env) -> bool:
        """does the expression denote THE module?  (`module` parameter; `self.module` of a StateHook)"""
        try:
            return self.ex(n, env)[1] == "module"
        except TranslateError:
            return False

    # ------------------------------------------------------------------ expressions
    def ex(self, n, env):
        a = self.self_attr(n)
        if a is not None:
            if self.is_private(a) or a in HOOK_CONSTS:
                # `self.__x` is `_<CLS>__x`: the private fields belong to class Hook only
                if self.is_private(a) and self.CLS != "Hook":
                    self.err(n, f"private attribute of class {self.CLS}")
                if a in HOOK_FIELDS:
                    fld, kind = HOOK_FIELDS[a]
                    if kind.startswith("opthandle:"):
                        return f"(handleOf {POS[kind.split(':')[1]]} self.obj.{fld})", kind
                    return f"self.obj.{fld}", kind
                if a in HOOK_CONSTS:
                    return HOOK_CONSTS[a]
                self.err(n, "unknown private attribute")
            if a == "module" and "StateHook" in mro(self.CLASSES, self.CLS):
                self.check_module_property(n)
                return "self.module", "module"
            key = self.resolve(n, a, getter=True)
            return f"(← {key} self).2", self.METHODS[key]["ret"]
        if isinstance(n, ast.Name) and n.id == "self":
            self.err(n, "`self` used as a value")
        if isinstance(n, ast.Attribute) and n.attr == "training":
            v, k = self.ex(n.value, env)
            if k == "module":
                return f"{v}.training", "bool"
            self.err(n, f"`.training` of kind {k}")
        if isinstance(n, ast.BoolOp):
            parts = [self.truth(x, env) for x in n.values]
            if any("←" in p for p in parts[1:]):
                self.err(n, "operand after the first of and/or is not pure (short-circuit would be lost)")
            return "(" + (" && " if isinstance(n.op, ast.And) else " || ").join(parts) + ")", "bool"
        if isinstance(n, ast.UnaryOp) and isinstance(n.op, ast.Not):
            return f"(!{self.truth(n.operand, env)})", "bool"
        if isinstance(n, ast.Compare) and len(n.ops) == 1 and isinstance(n.ops[0], (ast.Is, ast.IsNot)) \
                and isinstance(n.comparators[0], ast.Constant) and n.comparators[0].value is None:
            v, k = self.ex(n.left, env)
            if k.startswith("opthandle") or k == "optfin":
                return (f"{v}.isNone" if isinstance(n.ops[0], ast.Is) else f"{v}.isSome"), "bool"
            self.err(n, f"comparison with None on kind {k}")
        if isinstance(n, ast.Lambda):
            return self.weak_lambda(n, env)
        return super().ex(n, env)

    def truth(self, n, env) -> str:
        """Python truthiness of an expression in a condition"""
        v, k = self.ex(n, env)
        if k == "bool" or k.startswith("optcallable:"):     # a callable or None
            return v
        if k == "optfin" or k.startswith("opthandle"):       # `weakref.finalize` / `RemovableHandle` define no
            return f"{v}.isSome"                             # __bool__ / __len__: truthy unless None
        self.err(n, f"truth value of kind {k}")

    def weak_lambda(self, n: ast.Lambda, env):
        """`lambda module, *args, **kwargs: weakself().__wrapped_<pos>hook(module, *args, **kwargs)`"""
        if self.CLS != "Hook":
            self.err(n, "lambda outside class Hook")
        for pos in ("pre", "post"):
            for ws, (v, k) in env.items():
                if k == "weakref" and ast.unparse(n) == \
                        f"lambda module, *args, **kwargs: {ws}().__wrapped_{pos}hook(module, *args, **kwargs)":
                    self.resolve(n, f"__wrapped_{pos}hook", getter=False)
                    return f"(Callback.mk {v} {POS[pos]})", f"callback:{pos}"
        self.err(n, "unsupported lambda")

    def passthrough_ok(self, c: ast.Call) -> bool:
        """arguments are exactly `module, *args, **kwargs` of the enclosing wrapped hook"""
        pt = self.spec.get("passthrough")
        return pt is not None and "module" in self.sigs[self.name]["order"] and \
            [ast.unparse(x) for x in c.args] == ["module", f"*{pt[0]}"] and \
            [(k.arg, ast.unparse(k.value)) for k in c.keywords] == [(None, pt[1])]

    def call(self, n: ast.Call, env):
        ftxt = ast.unparse(n.func)
        if ftxt == "weakref.ref" and len(n.args) == 1 and not n.keywords and ast.unparse(n.args[0]) == "self" \
                and self.CLS is not None:
            return "(weakref_ref self)", "weakref"
        if ftxt == "weakref.finalize" and not n.keywords and len(n.args) == 4 and ast.unparse(n.args[0]) == "self" \
                and self.CLS is not None:
            fn = n.args[1]
            if not (isinstance(fn, ast.Name) and fn.id == "_detach_handles" and fn.id in self.METHODS):
                self.err(n, "finaliser callback is not the translated `_detach_handles`")
            a, ka = self.ex(n.args[2], env)
            b, kb = self.ex(n.args[3], env)
            if (ka, kb) != ("opthandle:pre", "opthandle:post"):
                self.err(n, f"finaliser arguments of kinds {ka}, {kb} (expected the pre handle, then the post handle)")
            return f"(weakref_finalize {a} {b})", "fin"
        if ftxt == "argtest.instance" and not n.keywords and len(n.args) == 3 and isinstance(n.args[0], ast.Constant) \
                and ast.unparse(n.args[2]) == "nn.Module":
            v, k = self.ex(n.args[1], env)
            if k == "module":
                return f"(← argtest_instance_Module {v})", "module"
        for pos in ("pre", "post"):
            if ftxt == f"self._{pos}hook_call" and self.spec["ret"] == "ran" and self.passthrough_ok(n):
                return f"(some {POS[pos]})", "ran"
        return self.err(n, "unsupported call")

    def callee(self, c: ast.Call, env):
        """`self.m(…)`, `<Class>.m(self, …)` or a module-level function among the translated ones
        -> (key, argument nodes) or None"""
        f = c.func
        if isinstance(f, ast.Name) and f.id in self.METHODS and self.METHODS[f.id]["cls"] is None:
            return f.id, list(c.args), c.keywords
        if self.CLS is None or not isinstance(f, ast.Attribute) or not isinstance(f.value, ast.Name):
            return None
        if f.value.id == "self":
            if f.attr == "hook" or f.attr.startswith(("_prehook_call", "_posthook_call")):
                return None
            return self.resolve(c, f.attr, getter=False), list(c.args), c.keywords
        if f.value.id in self.CLASSES and c.args and ast.unparse(c.args[0]) == "self":
            if f.value.id not in mro(self.CLASSES, self.CLS):
                self.err(c, f"{f.value.id} is not a base of {self.CLS}")
            return self.resolve(c, f.attr, getter=False, start=f.value.id), list(c.args[1:]), c.keywords
        return None

    def method_call(self, c: ast.Call, key: str, args, keywords, env) -> str:
        spec, sig = self.METHODS[key], self.sigs[key]
        if spec["cls"] is None:
            # module-level function with `*handles`: runs on the module
            if keywords or any(isinstance(x, ast.Starred) for x in args) or not spec.get("vararg") or sig["order"]:
                self.err(c, "unsupported call of a module-level function")
            items = []
            for x in args:
                v, k = self.ex(x, env)
                if not k.startswith("opthandle") or "←" in v:
                    self.err(x, f"argument of kind {k}")
                items.append(v)
            mod = "self.module" if self.STATE_TY == "HW" else "self"
            run = f"{key} {mod} [{', '.join(items)}]"
            return f"(← viaModule self ({run}))" if self.STATE_TY == "HW" else f"(← {run})"
        if self.STATE_TY != "HW":
            self.err(c, "method call from a module-level function")
        names = sig["order"]
        bound = {}
        for i, x in enumerate(args):
            if isinstance(x, ast.Starred) or i >= len(names):
                self.err(c, "unsupported positional arguments")
            bound[names[i]] = x
        for kw in keywords:
            if kw.arg is None or kw.arg not in names or kw.arg in bound:
                self.err(c, "unsupported keyword arguments")
            bound[kw.arg] = kw.value
        out = []
        for p in names:
            node = bound.get(p, sig["defaults"].get(p))
            if node is None:
                self.err(c, f"missing argument {p}")
            if p in self.DROPPED_PARAMS:
                if not self.the_module(node, env):
                    self.err(node, f"argument {p} is not the module")
                continue
            v, k = self.ex(node, env)
            if k != spec["params"][p] or "←" in v:
                self.err(node, f"argument {p} of {key}: kind {k}")
            out.append(v)
        return f"(← {key} self{''.join(' ' + a for a in out)})"

    def check_module_property(self, node):
        """`StateHook.module` must be the property `return self._hooked_module`"""
        for c in mro(self.CLASSES, self.CLS):
            defs = [f for f in self.CLASSES[c].body if isinstance(f, ast.FunctionDef) and f.name == "module"]
            if defs:
                body = [s for s in defs[0].body if not (isinstance(s, ast.Expr) and isinstance(s.value, ast.Constant))]
                if c == "StateHook" and len(defs) == 1 and is_getter(defs[0]) and len(body) == 1 \
                        and ast.unparse(body[0]) == "return self._hooked_module":
                    return
                self.err(node, f"`module` resolves to {c}.module, not the property returning `_hooked_module`")
        self.err(node, "`module` is not defined")

    # ------------------------------------------------------------------ statements
    def setobj(self, fld: str, val: str, d) -> str:
        return f"{self.ind(d)}let self := {{ self with obj := {{ self.obj with {fld} := {val} }} }}\n"

    def hook_run(self, s) -> bool:
        """the statement `self.hook(self.module)`"""
        return isinstance(s, ast.Expr) and isinstance(s.value, ast.Call) and ast.unparse(s.value.func) == "self.hook"

    def assigned(self, stmts) -> list[str]:
        out = super().assigned(stmts)

        def runs(ss):
            return any(self.hook_run(s) or (isinstance(s, ast.If) and (runs(s.body) or runs(s.orelse)))
                       or (isinstance(s, (ast.For, ast.With)) and runs(s.body)) for s in ss)
        if self.spec["ret"] == "count" and runs(stmts) and COUNT not in out:
            out.append(COUNT)
        return out

    def block(self, stmts, env, alias, d, cont) -> str:
        if not stmts:
            return cont(env, alias, d)
        s, rest = stmts[0], stmts[1:]
        I = self.ind(d)
        if isinstance(s, ast.Raise):
            exc = s.exc.func.id if isinstance(s.exc, ast.Call) and isinstance(s.exc.func, ast.Name) else None
            if exc not in progtx.ERRS:
                self.err(s, "unsupported exception")
            return f"{I}throw (Err.{exc}, self)\n"
        if isinstance(s, ast.Return) and s.value is None and self.spec["ret"] != "unit":
            if self.spec["ret"] == "count":
                return f"{I}pure (self, {env[COUNT][0]})\n"
            if self.spec["ret"] == "ran":
                return f"{I}pure (self, none)\n"
            self.err(s, "bare return")
        if isinstance(s, ast.For):
            return self.for_stmt(s, rest, env, alias, d, cont)
        if isinstance(s, ast.With):
            self.err(s, "unsupported statement")
        return super().block(stmts, env, alias, d, cont)

    def for_stmt(self, s: ast.For, rest, env, alias, d, cont) -> str:
        """`for x in xs: body` over a list, the body falling through and rebinding nothing but the state"""
        I = self.ind(d)
        if s.orelse or not isinstance(s.target, ast.Name):
            self.err(s, "unsupported loop")
        for x in ast.walk(s):
            if isinstance(x, (ast.Break, ast.Continue, ast.Return)):
                self.err(x, "break / continue / return inside a loop")
        it, kit = self.ex(s.iter, env)
        if kit != "handles":
            self.err(s.iter, f"loop over kind {kit}")
        if [x for x in self.assigned(list(s.body)) if x in env] or s.target.id in env:
            self.err(s, "loop rebinding a local")
        v = lname(s.target.id)
        env_b = dict(env)
        env_b[s.target.id] = (v, "opthandle")
        leaf = lambda e, a, dd: f"{self.ind(dd)}pure self\n"   # noqa: E731
        body = self.block(list(s.body), env_b, alias, d + 2, leaf)
        out = f"{I}let self ← {it}.foldlM (fun self {v} => (do\n{body}{I}    : {self.monad} _)) self\n"
        return out + self.block(rest, env, alias, d, cont)

    def call_stmt(self, c: ast.Call, env, alias, d, nxt) -> str:
        I = self.ind(d)
        f = c.func
        ftxt = ast.unparse(f)
        # self.hook(self.module): the user's state hook runs
        if ftxt == "self.hook" and self.spec["ret"] == "count" and not c.keywords and len(c.args) == 1 \
                and self.the_module(c.args[0], env) and "StateHook" in mro(self.CLASSES, self.CLS):
            n = env[COUNT][0]
            return f"{I}let {n} := {n} + 1\n" + nxt(env, alias, d)
        # h.remove() on a RemovableHandle
        if isinstance(f, ast.Attribute) and f.attr == "remove" and isinstance(f.value, ast.Name) and not c.args \
                and not c.keywords and env.get(f.value.id, ("", ""))[1].startswith("handle"):
            h = env[f.value.id][0]
            if self.STATE_TY == "TorchModule":
                return f"{I}let self := (RemovableHandle_remove self {h})\n" + nxt(env, alias, d)
            return f"{I}let self := {{ self with module := (RemovableHandle_remove self.module {h}) }}\n" + nxt(env, alias, d)
        # self.__finalizer.detach()
        if ftxt == "self.__finalizer.detach" and not c.args and not c.keywords and self.CLS == "Hook":
            if not self.detach_ok:
                self.err(c, "finaliser detached outside `if self.__finalizer: self.__finalizer.detach()` followed by "
                            "an assignment to self.__finalizer")
            self.detach_ok = False           # one statement only
            return f"{I}let self := (finalizer_detach self)\n" + nxt(env, alias, d)
        tgt = self.callee(c, env)
        if tgt is not None:
            return f"{I}let self := {self.method_call(c, *tgt, env)}.1\n" + nxt(env, alias, d)
        self.err(c, "unsupported call statement")

    def assign(self, s: ast.Assign, env, alias, d, nxt) -> str:
        I = self.ind(d)
        t = s.targets[0]
        a = self.self_attr(t)
        if a is not None:
            if a not in HOOK_FIELDS or self.CLS != "Hook":
                self.err(s, "assignment to an attribute that is not a private field of class Hook")
            fld, kind = HOOK_FIELDS[a]
            val = s.value
            if kind.startswith("opthandle:"):
                pos = kind.split(":")[1]
                if isinstance(val, ast.Constant) and val.value is None:
                    return self.setobj(fld, "none", d) + nxt(env, alias, d)
                # self.__<pos>hook_handle = module.register_forward_<…>hook(<lambda>, **self.__<pos>hook_kwargs)
                if isinstance(val, ast.Call) and isinstance(val.func, ast.Attribute) and val.func.attr in REGISTER \
                        and self.the_module(val.func.value, env):
                    if REGISTER[val.func.attr] != pos:
                        self.err(s, f"a handle of the {REGISTER[val.func.attr]} dictionary stored in {a}")
                    if len(val.args) != 1 or len(val.keywords) != 1 or val.keywords[0].arg is not None:
                        self.err(val, "unsupported registration arguments")
                    cb, kcb = self.ex(val.args[0], env)
                    kw, kkw = self.ex(val.keywords[0].value, env)
                    if not kcb.startswith("callback:") or kkw != "kwargs":
                        self.err(val, f"registration arguments of kinds {kcb}, {kkw}")
                    m = self.ex(val.func.value, env)[0]
                    self.fresh += 1
                    r = f"r{self.fresh}_"
                    return (f"{I}let {r} := ({val.func.attr} {m} {cb} {kw})\n"
                            f"{I}let self := {{ self with module := {r}.1 }}\n"
                            + self.setobj(fld, f"some {r}.2.id", d) + nxt(env, alias, d))
                self.err(s, "unsupported handle assignment")
            v, k = self.ex(val, env)
            if kind == "optfin":
                if k == "none":
                    return self.setobj(fld, "none", d) + nxt(env, alias, d)
                if k == "fin":
                    return self.setobj(fld, f"some {v}", d) + nxt(env, alias, d)
            if kind == "bool" and k == "bool":
                return self.setobj(fld, v, d) + nxt(env, alias, d)
            self.err(s, f"{a} assigned a value of kind {k}")
        if isinstance(t, ast.Name) and t.id == "_":
            v, k = self.ex(s.value, env)
            if "←" not in v:
                self.err(s, "dropped value of a pure expression")
            return f"{I}let _ := {v}\n" + nxt(env, alias, d)
        if isinstance(t, ast.Name):
            if t.id in env and env[t.id][1] != self.ex(s.value, env)[1]:
                self.err(s, "local rebound with another kind")
            return super().assign(s, env, alias, d, nxt)
        self.err(s, "unsupported assignment")

    def if_stmt(self, s: ast.If, rest, env, alias, d, cont) -> str:
        # `if self.__finalizer: self.__finalizer.detach()` must be followed by an assignment to self.__finalizer
        if self.self_attr(s.test) == "__finalizer" and not s.orelse and len(s.body) == 1 and isinstance(s.body[0], ast.Expr) \
                and ast.unparse(s.body[0].value) == "self.__finalizer.detach()":
            nx = rest[0] if rest else None
            if not (isinstance(nx, ast.Assign) and len(nx.targets) == 1 and self.self_attr(nx.targets[0]) == "__finalizer"):
                self.err(s, "detached finaliser is not replaced by the next statement")
            self.detach_ok = True
            try:
                return self.join_if(s, list(s.body), [], rest, env, alias, d, cont)
            finally:
                self.detach_ok = False
        body, orelse = list(s.body), list(s.orelse)
        if not orelse and len(body) == 1 and isinstance(body[0], ast.Assign) and isinstance(body[0].targets[0], ast.Name):
            self.err(s, "conditional rebinding of a local")
        return super().if_stmt(s, rest, env, alias, d, cont)

    def branch(self, test, body, orelse, env, alias, d, cont) -> str:
        I = self.ind(d)
        # `if h:` on a local optional handle refines it
        if isinstance(test, ast.Name) and env.get(test.id, ("", ""))[1].startswith("opthandle"):
            v, k = env[test.id]
            env_s = dict(env)
            env_s[test.id] = (v, k[3:])
            return (f"{I}match {v} with\n{I}| some {v} =>\n" + self.block(body, env_s, alias, d + 1, cont)
                    + f"{I}| none =>\n" + self.block(orelse, env, alias, d + 1, cont))
        c = self.truth(test, env)
        return (f"{I}if {c} then\n" + self.block(body, env, alias, d + 1, cont)
                + f"{I}else\n" + self.block(orelse, env, alias, d + 1, cont))

    def join_if(self, s, body, orelse, rest, env, alias, d, cont) -> str:
        """as in `Tx`, with this translator's exception type on the joined block"""
        I = self.ind(d)
        names = [x for x in self.assigned(body + orelse) if x in env]
        tup = self.carry(names, env)
        leaf = lambda e, a, dd: f"{self.ind(dd)}pure {self.carry(names, e)}\n"   # noqa: E731
        inner = self.branch(s.test, body, orelse, env, alias, d + 1, leaf)
        return f"{I}let {tup} ← (do\n{inner}{I}  : {self.monad} _)\n" + self.block(rest, env, alias, d, cont)

    # ------------------------------------------------------------------ whole function
    def emit(self) -> str:
        spec, sig = self.spec, self.sigs[self.name]
        where = f"{self.SRC}::{(self.CLS + '.') if self.CLS else ''}{spec['py']}"
        params = [p for p in sig["order"] if p not in self.DROPPED_PARAMS]
        if params != list(spec["params"]):
            raise TranslateError(where, f"signature changed: {params} (expected {list(spec['params'])})")
        va = spec.get("vararg", (None,))[0] or spec.get("passthrough", (None, None))[0]
        kw = spec.get("passthrough", (None, None))[1]
        if (sig["vararg"], sig["kwarg"]) != (va, kw):
            raise TranslateError(where, f"signature changed: *{sig['vararg']}, **{sig['kwarg']}")
        env = {p: (lname(p), k) for p, k in spec["params"].items()}
        plist = [(lname(p), self.LEAN_TY[k]) for p, k in spec["params"].items()]
        if spec.get("vararg"):
            env[spec["vararg"][0]] = (lname(spec["vararg"][0]), spec["vararg"][1])
            plist.append((lname(spec["vararg"][0]), self.LEAN_TY[spec["vararg"][1]]))
        if "module" in sig["order"]:
            env["module"] = ("self.module", "module")
        ret = spec["ret"]
        if ret == "count":
            env[COUNT] = (COUNT, "count")
        tail = {"unit": lambda e, a, dd: f"{self.ind(dd)}pure (self, ())\n",
                "ran": lambda e, a, dd: f"{self.ind(dd)}pure (self, none)\n",
                "count": lambda e, a, dd: f"{self.ind(dd)}pure (self, {e[COUNT][0]})\n"}.get(
                    ret, lambda e, a, dd: self.err(self.fdef, "falls off the end without returning"))
        body = self.block(list(self.fdef.body), env, {}, 1, tail)
        if ret == "count":
            body = f"  let {COUNT} := (0 : Nat)\n" + body
        ptxt = "".join(f" ({p} : {t})" for p, t in plist)
        head = f"def {self.name} (self : {self.STATE_TY}){ptxt} : {self.monad} ({self.STATE_TY} × {self.LEAN_TY[ret]}) := do\n"
        text = head + body
        if self.CLS is None:
            # a module-level function has no `self`: the threaded state is the module the handles point into
            if any(isinstance(x, ast.Name) and x.id in ("self", "world") for x in ast.walk(self.fdef)):
                raise TranslateError(where, "module-level function uses the name self / world")
            text = re.sub(r"\bself\b", "world", text)
        return text


def locate(tree, classes: dict, key: str, spec: dict) -> ast.FunctionDef:
    where = f"{SRC}::{(spec['cls'] + '.') if spec['cls'] else ''}{spec['py']}"
    if spec["cls"] is None:
        body = tree.body
    elif spec["cls"] in classes:
        body = classes[spec["cls"]].body
    else:
        raise TranslateError(SRC, f"class {spec['cls']} not found")
    want = [spec["decorator"]] if spec.get("decorator") else []
    found = [n for n in body if isinstance(n, ast.FunctionDef) and n.name == spec["py"]
             and [ast.unparse(d) for d in n.decorator_list] == want]
    if len(found) != 1:
        raise TranslateError(where, f"{len(found)} definitions with decorators {want}")
    return found[0]


def signature(f: ast.FunctionDef, is_method: bool) -> dict:
    a = f.args
    pos = [x.arg for x in a.posonlyargs + a.args]
    if is_method:
        if not pos or pos[0] != "self":
            raise TranslateError(f"{SRC}::{f.name}", "first parameter is not self")
        pos = pos[1:]
    order = pos + [x.arg for x in a.kwonlyargs]
    defaults = dict(zip(pos[len(pos) - len(a.defaults):], a.defaults))
    defaults.update({x.arg: dflt for x, dflt in zip(a.kwonlyargs, a.kw_defaults) if dflt is not None})
    return {"order": order, "defaults": defaults, "vararg": a.vararg.arg if a.vararg else None,
            "kwarg": a.kwarg.arg if a.kwarg else None}


def regenerate() -> dict:
    """regenerates Gen/HookProg.lean; same return shape as `progtx.regenerate_class`"""
    T = HookTx
    src = (REPO / T.SRC).read_text()
    tree = ast.parse(src)
    classes = class_map(tree)
    for c in sorted({s["cls"] for s in T.METHODS.values() if s["cls"]}):
        if c not in classes:
            raise TranslateError(T.SRC, f"class {c} not found")
    T.CLASSES = classes
    fdefs = {k: locate(tree, classes, k, s) for k, s in T.METHODS.items()}
    sigs = {k: signature(f, T.METHODS[k]["cls"] is not None) for k, f in fdefs.items()}
    text = T.HEADER
    info = {}
    for k, s in T.METHODS.items():
        seg = ast.get_source_segment(src, fdefs[k]) or ""
        sha = hashlib.sha256(seg.encode()).hexdigest()[:16]
        dec = f" (`@{s['decorator']}`)" if s.get("decorator") else ""
        qual = f"{s['cls']}.{s['py']}" if s["cls"] else s["py"]
        text += f"\n/-- from `{T.SRC}` :: `{qual}`{dec} (sha256 of source segment {sha}) -/\n" + T(k, fdefs[k], sigs).emit()
        info[k] = sha
    text += f"\nend {T.NAMESPACE}\n"
    p = GEN / T.OUT
    changed = not p.exists() or p.read_text() != text
    if changed:
        p.write_text(text)
    return {"functions": info, "rewritten": changed}


if __name__ == "__main__":
    print(json.dumps(regenerate(), indent=1))
