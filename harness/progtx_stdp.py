"""Statement-level translator, STDP-family trainers (DESIGN §12.5, properties C08 / C09): the WHOLE `forward` bodies of
`STDP`, `TripletSTDP` (`inferno/learn/trainers/two_factor_stdp.py`) and `MSTDP`, `MSTDPET`
(`inferno/learn/trainers/three_factor_stdp.py`), and the monitor wiring of their `register_cell` / `_build_cell_state`
→ Lean programs over the world of `Gen/STDPPrelude.lean`, regenerated on every run as `Gen/STDPProg.lean` (core Lean only).

What is kept from the source, statement by statement and in SOURCE ORDER: the loop over the trainer's units (`for cell,
state, monitors in self` / `for name, (cell, state, monitors) in zip(self.cells_, self)`), the `continue` guards (`cells is
not None and name not in cells`; `not cell.training or not self.training or not cell.updater`), WHICH monitor is read
(`monitors["…"]`, `KeyError`) and HOW (`peek()` vs `view(cell.connection.selector, state.tolerance)` under `state.delayed
and cell.connection.delayedby`; `reducer.data_.read(2)` vs `reducer.data_.select(selector, reducer.interpolate,
tolerance=…, offset=2)`), which receptive reshape each value goes through, the `einsum` pattern and its operand order,
the batch reduction, the triplet factors `(1.0 + y_b) * y`, the `isinstance(signal, torch.Tensor)` split with the scaled
signal, the `argwhere` partition, the row selection, the `torch.cat` table, `… if d.numel() else None`, the scalar branch
`batchreduce(d, 0) * abs(signal * scale)`, both `match (…, …)` tables with their subjects, and what is assigned to
`cell.updater.weight`.

A loop is emitted as two definitions: `<Class>_forward_cell` (the loop body for one unit; `continue` and the end of the
body return the unit's cell) and `<Class>_forward` (`for_units self (<Class>_forward_cell …)`).  The only mutation the
sub-language knows is `cell.updater.<p> = (pos, neg)` on the loop's own cell.

`register_cell` (all four classes) is translated as DATA: the list of `MonitorSpec`s its `self.add_monitor(…)` calls
describe — monitor name, monitored attribute (`"synapse.spike" if delayed else "connection.synspike"`), monitor class and
`subattrs`, the reducer (`state.tracecls(…)` / `PassthroughReducer(…)` / `EligibilityTraceReducer(…)`) with its step time,
time constant, amplitude (`abs(state.lr_…)`, `abs(state.lr_x_triplet / state.lr_x_pair)`), target, duration
(`delayedby if delayed else 0.0`, `2 * dt`, `delayedby + dt`: `None + float` raises `TypeError`), `inclusive`, `inplace`,
which reshape is `obs_reshape` / `cond_reshape`, the `monitor_kwargs`, the `unique` flag and the tags — in source order,
over `RegEnv` / `TRegEnv` (`cell.connection.dt`, `cell.connection.delayedby`, the fields of the state).  The leading
`cell, state = self.add_cell(name, cell, self._build_cell_state(**kwargs), ["weight"])` and the trailing `return
self.get_unit(name)` are required verbatim and not translated (C15 / C17).  Of `_build_cell_state` only the
`match state.tracemode:` statement is translated (`<Class>_tracecls`: which reducer class each trace mode selects; a literal
pattern `"_"` is a string, NOT a wildcard; `none` = no case matched, `state.tracecls` stays unset).

Several classes of two files are translated, so this module has its own `regenerate()` (same return shape as
`progtx.regenerate_class`).  Anything outside this sub-language raises `TranslateError` naming the node.
`Props/C08GlueProg.lean` proves the generated programs equal to the per-step functions of `Model/STDP.lean`.
"""
from __future__ import annotations

import ast
import hashlib
import itertools
import json

import progtx
from progtx import Tx
from translate import GEN, REPO, TranslateError, lname

TWO = "inferno/learn/trainers/two_factor_stdp.py"
THREE = "inferno/learn/trainers/three_factor_stdp.py"

# kinds:  bool scalar wt optwt parts none | obs optobs recv batched sigten mask idx | sig optstrs strs str
#         trainer cell conn state monitors monitor optupdater optscalar sel numel
LEAN_TY = {"sig": "Sig α", "scalar": "α", "optstrs": "Option (List String)"}

STATE_FIELDS = {
    "StateS α": {"lr_post": "scalar", "lr_pre": "scalar", "delayed": "bool", "tolerance": "scalar"},
    "TStateS α": {"lr_post_pair": "scalar", "lr_pre_pair": "scalar", "delayed": "bool", "tolerance": "scalar"},
}
# fields of the state `register_cell` reads, per environment type
REG_FIELDS = {
    "RegEnv α": {"lr_post": "scalar", "lr_pre": "scalar", "tc_post": "scalar", "tc_pre": "scalar",
                 "tc_eligibility": "scalar", "delayed": "bool", "tracemode": "str"},
    "TRegEnv α": {"lr_post_pair": "scalar", "lr_post_triplet": "scalar", "lr_pre_pair": "scalar", "lr_pre_triplet": "scalar",
                  "tc_post_fast": "scalar", "tc_post_slow": "scalar", "tc_pre_fast": "scalar", "tc_pre_slow": "scalar",
                  "delayed": "bool", "tracemode": "str", "inplace": "bool"},
}

# functions, in emission order.  key = name of the generated definition
METHODS = {
    "STDP_forward": {"src": TWO, "cls": "STDP", "py": "forward", "kind": "forward", "state": "StateS α", "params": {}},
    "TripletSTDP_forward": {"src": TWO, "cls": "TripletSTDP", "py": "forward", "kind": "forward", "state": "TStateS α",
                            "params": {}},
    "MSTDP_forward": {"src": THREE, "cls": "MSTDP", "py": "forward", "kind": "forward", "state": "StateS α",
                      "params": {"signal": "sig", "scale": "scalar", "cells": "optstrs"}},
    "MSTDPET_forward": {"src": THREE, "cls": "MSTDPET", "py": "forward", "kind": "forward", "state": "StateS α",
                        "params": {"signal": "sig", "scale": "scalar", "cells": "optstrs"}},
    "STDP_tracecls": {"src": TWO, "cls": "STDP", "py": "_build_cell_state", "kind": "tracecls"},
    "STDP_register_cell": {"src": TWO, "cls": "STDP", "py": "register_cell", "kind": "register", "env": "RegEnv α"},
    "TripletSTDP_tracecls": {"src": TWO, "cls": "TripletSTDP", "py": "_build_cell_state", "kind": "tracecls"},
    "TripletSTDP_register_cell": {"src": TWO, "cls": "TripletSTDP", "py": "register_cell", "kind": "register",
                                  "env": "TRegEnv α"},
    "MSTDP_tracecls": {"src": THREE, "cls": "MSTDP", "py": "_build_cell_state", "kind": "tracecls"},
    "MSTDP_register_cell": {"src": THREE, "cls": "MSTDP", "py": "register_cell", "kind": "register", "env": "RegEnv α"},
    "MSTDPET_tracecls": {"src": THREE, "cls": "MSTDPET", "py": "_build_cell_state", "kind": "tracecls"},
    "MSTDPET_register_cell": {"src": THREE, "cls": "MSTDPET", "py": "register_cell", "kind": "register", "env": "RegEnv α"},
}

EINSUM = {"b ... r, b ... r -> b ...": "einsum_brr_brr_b"}

HEADER = """import InfernoVerif.Gen.STDPPrelude
/-! GENERATED by harness/progtx_stdp.py from inferno/learn/trainers/two_factor_stdp.py (classes `STDP`, `TripletSTDP`)
and inferno/learn/trainers/three_factor_stdp.py (classes `MSTDP`, `MSTDPET`) — do not edit.
Whole `forward` bodies as `Except Err` programs over ONE weight position (`<Class>_forward_cell`: the loop body for one
unit; `<Class>_forward`: the loop), the monitor wiring of `register_cell` as data (`<Class>_register_cell`) and the
`match state.tracemode:` of `_build_cell_state` (`<Class>_tracecls`).  Vocabulary: Gen/STDPPrelude.lean. -/
set_option linter.unusedVariables false
namespace InfernoVerif.Gen.STDPProg
open InfernoVerif.Gen.STDPPrelude

variable {ο σ α : Type} [Add α] [Mul α] [Neg α] [Max α] [Zero α] [One α] [LE α] [DecidableLE α] [LT α] [DecidableLT α]
  [Div α] [OfNat α 2]
"""


def const(n, value) -> bool:
    return isinstance(n, ast.Constant) and type(n.value) is type(value) and n.value == value


def neg_one(n) -> bool:
    return isinstance(n, ast.UnaryOp) and isinstance(n.op, ast.USub) and const(n.operand, 1)


class STDPTx(Tx):
    SRC = TWO
    CLS = "STDP"
    METHODS = METHODS
    LEAN_TY = LEAN_TY
    STATE_TY = "Trainer ο σ α"
    DROPPED_PARAMS: set = set()
    OUT = "STDPProg.lean"
    NAMESPACE = "InfernoVerif.Gen.STDPProg"
    HEADER = HEADER

    def __init__(self, name: str, fdef: ast.FunctionDef, sigs: dict):
        self.name, self.fdef, self.sigs = name, fdef, sigs
        self.spec = self.METHODS[name]
        self.SRC, self.CLS = self.spec["src"], self.spec["cls"]
        self.fresh = 0
        self.cellvar = None          # Lean name of the loop's cell (None outside a loop body)

    def err(self, node, msg):
        raise TranslateError(f"{self.SRC}::{self.CLS}.{self.spec['py']}:{getattr(node, 'lineno', '?')}",
                             f"{msg}: {ast.unparse(node)[:140] if isinstance(node, ast.AST) else node}")

    # ------------------------------------------------------------------ expressions
    def pure(self, node, v):
        if "←" in v:
            self.err(node, "operand is not pure (evaluation order / short-circuit would be lost)")
        return v

    def attr(self, n: ast.Attribute, env):
        v, k = self.ex(n.value, env)
        a = n.attr
        table = {
            "trainer": {"training": "bool"},
            "cell": {"training": "bool", "updater": "optupdater", "connection": "conn"},
            "conn": {"selector": "sel", "delayedby": "optscalar"},
            "regconn": {"dt": "scalar", "delayedby": "optscalar"},
            "regcell": {"connection": "regconn"},
        }
        if k == "state":
            fields = STATE_FIELDS[self.spec["state"]]
            if a in fields:
                return f"{v}.{a}", fields[a]
        elif k == "regstate":
            fields = REG_FIELDS[self.spec["env"]]
            if a in fields:
                return f"R.{a}", fields[a]
        elif k in table and a in table[k]:
            if k == "regcell":
                return v, "regconn"
            if k == "regconn":
                return f"R.{a}", table[k][a]
            return f"{v}.{a}", table[k][a]
        self.err(n, f"unsupported attribute of kind {k}")

    def number(self, n):
        """`0`, `0.0`, `1`, `1.0`, `2` as scalars"""
        if isinstance(n, ast.Constant) and type(n.value) in (int, float) and n.value in (0, 1, 2):
            return f"({int(n.value)} : α)"
        return None

    def truth(self, n, env) -> str:
        """Python truth value of an expression used as a condition"""
        v, k = self.ex(n, env)
        if k == "bool":
            return v
        if k == "optupdater":        # `Updater` is an `nn.Module` without `__bool__` / `__len__`: truthy unless None
            return f"{v}.isSome"
        if k == "optscalar":
            return f"(truthy_optfloat O {v})"
        if k == "numel":
            return v
        self.err(n, f"truth value of kind {k}")

    def ex(self, n, env):
        if isinstance(n, ast.Constant):
            if isinstance(n.value, bool):
                return ("true" if n.value else "false"), "bool"
            if n.value is None:
                return "none", "none"
            if isinstance(n.value, str):
                return json.dumps(n.value), "str"
            num = self.number(n)
            if num is not None:
                return num, "scalar"
            self.err(n, "unsupported constant")
        if isinstance(n, ast.Name):
            if n.id not in env:
                self.err(n, "unknown name")
            return env[n.id]
        if isinstance(n, ast.Attribute):
            return self.attr(n, env)
        if isinstance(n, ast.UnaryOp) and isinstance(n.op, ast.Not):
            return f"(!{self.truth(n.operand, env)})", "bool"
        if isinstance(n, ast.BoolOp):
            return self.boolop(n, env)
        if isinstance(n, ast.BinOp):
            return self.binop(n, env)
        if isinstance(n, ast.Compare) and len(n.ops) == 1:
            return self.compare(n, env)
        if isinstance(n, ast.IfExp):
            return self.ifexp(n, env)
        if isinstance(n, ast.Subscript):
            return self.subscript(n, env)
        if isinstance(n, ast.Call):
            return self.call(n, env)
        if isinstance(n, ast.Tuple) and len(n.elts) == 2 and not any(isinstance(e, ast.Starred) for e in n.elts):
            parts = []
            for e in n.elts:
                v, k = self.ex(e, env)
                if k == "wt":
                    parts.append(f"some {v}")
                elif k in ("none", "optwt"):
                    parts.append(v)
                else:
                    self.err(e, f"update part of kind {k}")
            return f"({parts[0]}, {parts[1]})", "parts"
        self.err(n, "unsupported expression")

    def boolop(self, n: ast.BoolOp, env):
        first = n.values[0]
        # `x is not None and <rest>`: the rest sees `x` refined
        if isinstance(n.op, ast.And) and isinstance(first, ast.Compare) and len(first.ops) == 1 \
                and isinstance(first.ops[0], ast.IsNot) and const_none(first.comparators[0]) and isinstance(first.left, ast.Name) \
                and env.get(first.left.id, ("", ""))[1] == "optstrs":
            nm = first.left.id
            v = env[nm][0]
            env_s = dict(env)
            env_s[nm] = (v, "strs")
            rest = [self.pure(x, self.truth(x, env_s)) for x in n.values[1:]]
            return f"(match {v} with | some {v} => ({' && '.join(rest)}) | none => false)", "bool"
        parts = [self.truth(x, env) for x in n.values]
        for x, p in zip(n.values[1:], parts[1:]):
            self.pure(x, p)
        return "(" + (" && " if isinstance(n.op, ast.And) else " || ").join(parts) + ")", "bool"

    def binop(self, n: ast.BinOp, env):
        a, ka = self.ex(n.left, env)
        b, kb = self.ex(n.right, env)
        if isinstance(n.op, ast.Add):
            if ka == "wt" and kb == "wt":
                return f"({a} + {b})", "wt"
            if ka == "scalar" and kb == "obs" and self.number(n.left) is not None:
                return f"(O.add_scalar {a} {b})", "obs"
        if isinstance(n.op, ast.Mult):
            if ka == "obs" and kb == "optobs":
                return f"(← obs_mul_opt O {a} {b})", "obs"
            if ka == "obs" and kb == "obs":
                return f"(O.mul {a} {b})", "obs"
            if ka == "batched" and kb == "batched":
                return f"(← bmul {a} {b})", "batched"
            if ka == "optobs" and kb == "batched":
                return f"(← bmul (← opt_batched O {a}) {b})", "batched"
            if ka == "wt" and kb == "scalar":
                return f"({a} * {b})", "wt"
            if ka == "scalar" and kb == "scalar":
                return f"({a} * {b})", "scalar"
            if ka == "sigten" and kb == "scalar":
                return f"(tensor_mul_scalar {a} {b})", "sigten"
        self.err(n, f"unsupported arithmetic on kinds {ka}, {kb}")

    def compare(self, n: ast.Compare, env):
        a, ka = self.ex(n.left, env)
        op, right = n.ops[0], n.comparators[0]
        if isinstance(op, (ast.In, ast.NotIn)):
            b, kb = self.ex(right, env)
            if ka == "str" and kb == "strs":
                return (f"({b}.contains {a})" if isinstance(op, ast.In) else f"(!({b}.contains {a}))"), "bool"
            self.err(n, f"membership test on kinds {ka}, {kb}")
        if isinstance(op, (ast.Is, ast.IsNot)) and const_none(right):
            if ka in ("optscalar", "optstrs"):
                return (f"{a}.isNone" if isinstance(op, ast.Is) else f"{a}.isSome"), "bool"
            self.err(n, f"comparison with None on kind {ka}")
        zero = self.number(right) == "(0 : α)"
        if ka in ("scalar", "wt") and zero:
            if isinstance(op, ast.GtE):
                return f"(decide (0 ≤ {a}))", "bool"
            if isinstance(op, ast.Lt):
                return f"(decide ({a} < 0))", "bool"
        if ka == "sigten" and zero:
            if isinstance(op, ast.GtE):
                return f"(tensor_ge0 {a})", "mask"
            if isinstance(op, ast.Lt):
                return f"(tensor_lt0 {a})", "mask"
        self.err(n, f"unsupported comparison on kind {ka}")

    def ifexp(self, n: ast.IfExp, env):
        c = self.truth(n.test, env)
        a, ka = self.ex(n.body, env)
        b, kb = self.ex(n.orelse, env)
        if {ka, kb} == {"wt", "none"}:
            a = f"(some {a})" if ka == "wt" else a
            b = f"(some {b})" if kb == "wt" else b
            k = "optwt"
        elif ka == kb and ka in ("optobs", "obs", "scalar", "str"):
            k = ka
        else:
            self.err(n, f"conditional expression on kinds {ka}, {kb}")
        if "←" in a or "←" in b:
            # only the chosen branch is evaluated
            return f"(← (if {c} then (do pure {a}) else (do pure {b})))", k
        return f"(if {c} then {a} else {b})", k

    def subscript(self, n: ast.Subscript, env):
        v, k = self.ex(n.value, env)
        if k == "monitors" and isinstance(n.slice, ast.Constant) and isinstance(n.slice.value, str):
            return f"(← getItem {v} {json.dumps(n.slice.value)})", "monitor"
        if k == "batched":
            i, ki = self.ex(n.slice, env)
            if ki == "idx":
                return f"(← index_select0 {v} {i})", "batched"
        self.err(n, f"unsupported subscript on kind {k}")

    def monitor_of(self, node, env):
        """`<m>.reducer.data_` -> the monitor expression `<m>`"""
        if isinstance(node, ast.Attribute) and node.attr == "data_" and isinstance(node.value, ast.Attribute) \
                and node.value.attr == "reducer":
            v, k = self.ex(node.value.value, env)
            if k == "monitor":
                return v, node.value.value
        return None, None

    def offset(self, n) -> str:
        if isinstance(n, ast.Constant) and type(n.value) is int and n.value >= 0:
            return f"({n.value} : Int)"
        self.err(n, "offset is not a non-negative integer literal")

    def call(self, n: ast.Call, env):
        f = n.func
        ftxt = ast.unparse(f)
        kw = {k.arg: k.value for k in n.keywords}
        if None in kw:
            self.err(n, "**kwargs in a call")
        if isinstance(f, ast.Attribute):
            # receptive reshapes
            if f.attr in ("presyn_receptive", "postsyn_receptive") and len(n.args) == 1 and not kw:
                c, kc = self.ex(f.value, env)
                if kc == "conn":
                    x, kx = self.ex(n.args[0], env)
                    if kx == "optobs":
                        return f"(← receptive {c}.{f.attr} {x})", "recv"
                    if kx == "obs":
                        return f"({c}.{f.attr} {x})", "recv"
                    self.err(n, f"receptive reshape of kind {kx}")
            # monitor reads
            if f.attr == "peek" and not n.args and not kw:
                m, km = self.ex(f.value, env)
                if km == "monitor":
                    return f"{m}.peek", "optobs"
            if f.attr == "view" and len(n.args) == 2 and not kw and not isinstance(n.args[1], ast.Starred):
                m, km = self.ex(f.value, env)
                if km == "monitor":
                    t, kt = self.ex(n.args[0], env)
                    tol, ktol = self.ex(n.args[1], env)
                    if (kt, ktol) == ("sel", "scalar"):
                        return f"({m}.view {t} {tol})", "optobs"
                    self.err(n, f"view arguments of kinds {kt}, {ktol}")
            if f.attr == "read" and len(n.args) == 1 and not kw:
                m, _ = self.monitor_of(f.value, env)
                if m is not None:
                    return f"(← {m}.data_read {self.offset(n.args[0])})", "obs"
            if f.attr == "select" and len(n.args) == 2 and set(kw) == {"tolerance", "offset"}:
                m, mnode = self.monitor_of(f.value, env)
                if m is not None:
                    if ast.unparse(n.args[1]) != ast.unparse(mnode) + ".reducer.interpolate":
                        self.err(n, "interpolation is not the `interpolate` of the selected monitor's reducer")
                    t, kt = self.ex(n.args[0], env)
                    tol, ktol = self.ex(kw["tolerance"], env)
                    if (kt, ktol) == ("sel", "scalar"):
                        return f"(← {m}.data_select {t} {tol} {self.offset(kw['offset'])})", "obs"
                    self.err(n, f"select arguments of kinds {kt}, {ktol}")
            # state.batchreduce(x, 0)
            if f.attr == "batchreduce" and len(n.args) == 2 and not kw and const(n.args[1], 0):
                s, ks = self.ex(f.value, env)
                if ks == "state":
                    x, kx = self.ex(n.args[0], env)
                    if kx == "batched":
                        return f"({s}.batchreduce {x})", "wt"
                    if kx == "optobs":
                        return f"({s}.batchreduce (← opt_batched O {x}))", "wt"
                    self.err(n, f"batch reduction of kind {kx}")
            # x.view(-1, *repeat(1, like.ndim - 1))
            if f.attr == "view" and len(n.args) == 2 and not kw and neg_one(n.args[0]) and isinstance(n.args[1], ast.Starred):
                rep = n.args[1].value
                if isinstance(rep, ast.Call) and ast.unparse(rep.func) == "repeat" and len(rep.args) == 2 and not rep.keywords \
                        and const(rep.args[0], 1) and isinstance(rep.args[1], ast.BinOp) and isinstance(rep.args[1].op, ast.Sub) \
                        and const(rep.args[1].right, 1) and isinstance(rep.args[1].left, ast.Attribute) \
                        and rep.args[1].left.attr == "ndim":
                    x, kx = self.ex(f.value, env)
                    like, kl = self.ex(rep.args[1].left.value, env)
                    if kx == "sigten" and kl == "batched":
                        return f"(view_b1 {x})", "batched"
                    if kx == "sigten" and kl == "optobs":
                        return f"(← view_b1_like {like} {x})", "batched"
                    self.err(n, f"view of kind {kx} like kind {kl}")
            # torch.argwhere(mask).view(-1)
            if f.attr == "view" and len(n.args) == 1 and not kw and neg_one(n.args[0]) and isinstance(f.value, ast.Call) \
                    and ast.unparse(f.value.func) == "torch.argwhere" and len(f.value.args) == 1 and not f.value.keywords:
                m, km = self.ex(f.value.args[0], env)
                if km == "mask":
                    return f"(argwhere {m})", "idx"
            if f.attr == "abs" and not n.args and not kw:
                x, kx = self.ex(f.value, env)
                if kx == "sigten":
                    return f"(tensor_abs {x})", "sigten"
            if f.attr == "numel" and not n.args and not kw:
                x, kx = self.ex(f.value, env)
                if kx == "batched":
                    return f"(numel_bool {x})", "numel"
        if ftxt == "abs" and len(n.args) == 1 and not kw:
            x, kx = self.ex(n.args[0], env)
            if kx == "scalar":
                return f"(absv {x})", "scalar"
        if ftxt == "ein.einsum" and len(n.args) == 3 and not kw and isinstance(n.args[2], ast.Constant) \
                and n.args[2].value in EINSUM:
            a, ka = self.ex(n.args[0], env)
            b, kb = self.ex(n.args[1], env)
            if (ka, kb) == ("recv", "recv"):
                return f"(← {EINSUM[n.args[2].value]} {a} {b})", "batched"
            self.err(n, f"einsum operands of kinds {ka}, {kb}")
        if ftxt == "torch.cat" and len(n.args) == 2 and not kw and const(n.args[1], 0) and isinstance(n.args[0], ast.Tuple) \
                and len(n.args[0].elts) == 2:
            a, ka = self.ex(n.args[0].elts[0], env)
            b, kb = self.ex(n.args[0].elts[1], env)
            if (ka, kb) == ("batched", "batched"):
                return f"(cat0 {a} {b})", "batched"
        self.err(n, "unsupported call")

    # ------------------------------------------------------------------ statements
    def terminates(self, stmts) -> bool:
        if stmts and isinstance(stmts[-1], ast.Continue):
            return True
        if stmts and isinstance(stmts[-1], ast.Match):
            return all(self.terminates(c.body) for c in stmts[-1].cases)
        return super().terminates(stmts)

    def assigned(self, stmts) -> list[str]:
        out = super().assigned(stmts)
        for s in stmts:
            if isinstance(s, ast.Match):
                for c in s.cases:
                    for x in self.assigned(c.body):
                        if x not in out:
                            out.append(x)
        return out

    def mutates_cell(self, stmts) -> bool:
        return any(isinstance(x, ast.Assign) and any(isinstance(t, ast.Attribute) for t in x.targets)
                   for s in stmts for x in ast.walk(s))

    def block(self, stmts, env, alias, d, cont) -> str:
        if not stmts:
            return cont(env, alias, d)
        s, rest = stmts[0], stmts[1:]
        I = self.ind(d)
        nxt = lambda e, a, dd: self.block(rest, e, a, dd, cont)   # noqa: E731
        if isinstance(s, ast.Expr) and isinstance(s.value, ast.Constant) and isinstance(s.value.value, str):
            return nxt(env, alias, d)
        if isinstance(s, ast.Continue):
            if self.cellvar is None:
                self.err(s, "continue outside the loop over the units")
            if rest:
                self.err(rest[0], "statement after continue")
            return f"{I}pure {self.cellvar}\n"
        if isinstance(s, ast.Assign) and len(s.targets) == 1:
            return self.assign(s, env, alias, d, nxt)
        if isinstance(s, ast.If):
            return self.if_stmt(s, rest, env, alias, d, cont)
        if isinstance(s, ast.Match):
            return self.match_stmt(s, rest, env, alias, d, cont)
        self.err(s, "unsupported statement")

    def assign(self, s: ast.Assign, env, alias, d, nxt) -> str:
        I = self.ind(d)
        t = s.targets[0]
        # cell.updater.<param> = (pos, neg)
        if isinstance(t, ast.Attribute) and isinstance(t.value, ast.Attribute) and t.value.attr == "updater" \
                and isinstance(t.value.value, ast.Name) and env.get(t.value.value.id, ("", ""))[1] == "cell":
            cv = env[t.value.value.id][0]
            if cv != self.cellvar:
                self.err(s, "assignment to the updater of a cell that is not the loop's")
            v, k = self.ex(s.value, env)
            if k != "parts":
                self.err(s, f"updater attribute assigned a value of kind {k}")
            return (f"{I}let {cv} := {{ {cv} with updater := (← updater_set {cv}.updater {json.dumps(t.attr)} {v}) }}\n"
                    + nxt(env, alias, d))
        targets = t.elts if isinstance(t, ast.Tuple) else [t]
        values = s.value.elts if isinstance(t, ast.Tuple) and isinstance(s.value, ast.Tuple) else [s.value]
        if len(targets) != len(values) or not all(isinstance(x, ast.Name) for x in targets):
            self.err(s, "unsupported assignment")
        names = [x.id for x in targets]
        for i, val in enumerate(values[1:], 1):
            if any(isinstance(x, ast.Name) and x.id in names[:i] for x in ast.walk(val)):
                self.err(s, "tuple assignment whose later values read earlier targets")
        out = ""
        env = dict(env)
        new = {}
        for nm, val in zip(names, values):
            if nm in (self.cellvar, "self") or env.get(nm, ("", ""))[1] in ("cell", "state", "monitors", "trainer"):
                self.err(s, f"rebinding of {nm}")
            v, k = self.ex(val, env)
            if k in ("none", "numel", "monitor", "parts"):
                self.err(s, f"local bound to a value of kind {k}")
            out += f"{I}let {lname(nm)} := {v}\n"
            new[nm] = (lname(nm), k)
        env.update(new)
        return out + nxt(env, alias, d)

    def if_stmt(self, s: ast.If, rest, env, alias, d, cont) -> str:
        body, orelse = list(s.body), list(s.orelse)
        if self.terminates(body) and not self.terminates(orelse):
            orelse, rest = orelse + list(rest), []
        elif orelse and self.terminates(orelse) and not self.terminates(body):
            body, rest = body + list(rest), []
        if rest:
            self.err(s, "conditional followed by statements both branches reach (or none does)")
        return self.branch(s.test, body, orelse, env, alias, d, cont)

    def branch(self, test, body, orelse, env, alias, d, cont) -> str:
        I = self.ind(d)
        # isinstance(signal, torch.Tensor) refines the signal
        t, neg = test, False
        if isinstance(t, ast.UnaryOp) and isinstance(t.op, ast.Not):
            t, neg = t.operand, True
        if isinstance(t, ast.Call) and ast.unparse(t.func) == "isinstance" and len(t.args) == 2 and not t.keywords \
                and isinstance(t.args[0], ast.Name) and env.get(t.args[0].id, ("", ""))[1] == "sig":
            if ast.unparse(t.args[1]) != "torch.Tensor":
                self.err(test, "isinstance test against another class")
            nm = t.args[0].id
            v = env[nm][0]
            ten, sca = (orelse, body) if neg else (body, orelse)
            env_t, env_s = dict(env), dict(env)
            env_t[nm] = (v, "sigten")
            env_s[nm] = (v, "scalar")
            first = (f"{I}| .tensor {v} =>\n" + self.block(ten, env_t, alias, d + 1, cont),
                     f"{I}| .scalar {v} =>\n" + self.block(sca, env_s, alias, d + 1, cont))
            if neg:
                first = first[::-1]
            return f"{I}match {v} with\n" + first[0] + first[1]
        c = self.truth(test, env)
        return (f"{I}if {c} then\n" + self.block(body, env, alias, d + 1, cont)
                + f"{I}else\n" + self.block(orelse, env, alias, d + 1, cont))

    def match_stmt(self, s: ast.Match, rest, env, alias, d, cont) -> str:
        """`match (c0, c1): case (False, False): … ` over ALL boolean combinations, each exactly once, no guards"""
        I = self.ind(d)
        if not isinstance(s.subject, ast.Tuple) or not s.subject.elts:
            self.err(s, "match subject is not a tuple")
        subj = []
        for e in s.subject.elts:
            v, k = self.ex(e, env)
            if k != "bool":
                self.err(e, f"match subject component of kind {k}")
            subj.append(self.pure(e, v))
        n = len(subj)
        pats = []
        for c in s.cases:
            p = c.pattern
            if c.guard is not None or not isinstance(p, ast.MatchSequence) or len(p.patterns) != n \
                    or not all(isinstance(x, ast.MatchSingleton) and isinstance(x.value, bool) for x in p.patterns):
                self.err(c.pattern, "case pattern is not a tuple of True / False")
            pats.append(tuple(x.value for x in p.patterns))
        if sorted(pats) != sorted(itertools.product((False, True), repeat=n)):
            self.err(s, "cases are not exactly all boolean combinations")
        fmt = lambda p: ", ".join("true" if b else "false" for b in p)   # noqa: E731
        if not rest or all(self.terminates(c.body) for c in s.cases):
            if rest:
                self.err(rest[0], "statement after a match whose cases all leave the body")
            out = f"{I}match {', '.join(subj)} with\n"
            for p, c in zip(pats, s.cases):
                out += f"{I}| {fmt(p)} =>\n" + self.block(list(c.body), env, alias, d + 1, cont)
            return out
        # the cases fall through into `rest`: they bind the same locals, which are carried out of the match
        if any(self.mutates_cell(c.body) for c in s.cases):
            self.err(s, "updater assignment inside a match that is followed by statements")
        names = self.assigned(list(s.cases[0].body))
        for c in s.cases:
            if self.assigned(list(c.body)) != names or self.terminates(c.body):
                self.err(c.pattern, "cases bind different locals")
        if not names:
            self.err(s, "match without effect")
        kinds = {}

        def leaf(e, a, dd):
            for x in names:
                if kinds.setdefault(x, e[x][1]) != e[x][1]:
                    self.err(s, f"cases bind {x} to values of different kinds")
            return f"{self.ind(dd)}pure ({', '.join(e[x][0] for x in names)})\n"
        out = f"{I}let ({', '.join(lname(x) for x in names)}) ← (match {', '.join(subj)} with\n"
        for p, c in zip(pats, s.cases):
            out += f"{I}  | {fmt(p)} => do\n" + self.block(list(c.body), env, alias, d + 3, leaf)
        out += f"{I}  : Except Err _)\n"
        env = dict(env)
        for x in names:
            env[x] = (lname(x), kinds[x])
        return out + self.block(list(rest), env, alias, d, cont)

    # ------------------------------------------------------------------ whole method
    def loop_header(self, loop: ast.For):
        """-> (name variable or None, cell, state, monitors)"""
        t, it = loop.target, loop.iter
        names = lambda tup: [x.id for x in tup.elts] if isinstance(tup, ast.Tuple) and all(   # noqa: E731
            isinstance(x, ast.Name) for x in tup.elts) else None
        if ast.unparse(it) == "self" and names(t) and len(names(t)) == 3:
            return (None, *names(t))
        if ast.unparse(it) == "zip(self.cells_, self)" and isinstance(t, ast.Tuple) and len(t.elts) == 2 \
                and isinstance(t.elts[0], ast.Name) and names(t.elts[1]) and len(names(t.elts[1])) == 3:
            return (t.elts[0].id, *names(t.elts[1]))
        self.err(loop, "unsupported loop header")

    def emit(self) -> str:
        if self.spec["kind"] == "register":
            return self.emit_register()
        if self.spec["kind"] == "tracecls":
            return self.emit_tracecls()
        sig = self.sigs[self.name]
        if sig["order"] != list(self.spec["params"]) or sig["vararg"] or sig["kwarg"]:
            raise TranslateError(f"{self.SRC}::{self.CLS}.{self.spec['py']}", f"signature changed: {sig['order']}")
        body = [s for s in self.fdef.body
                if not (isinstance(s, ast.Expr) and isinstance(s.value, ast.Constant) and isinstance(s.value.value, str))]
        if len(body) != 1 or not isinstance(body[0], ast.For) or body[0].orelse:
            self.err(self.fdef, "body is not a single loop over the units")
        loop = body[0]
        for x in ast.walk(loop):
            if isinstance(x, (ast.Break, ast.Return, ast.For, ast.While)) and x is not loop:
                self.err(x, "break / return / nested loop inside the loop over the units")
        nmvar, cellv, statev, monv = self.loop_header(loop)
        local = [nmvar or "name_", cellv, statev, monv]
        if len(set(local) | set(self.spec["params"]) | {"self", "O"}) != 4 + len(self.spec["params"]) + 2:
            self.err(loop, "loop variables shadow a parameter")
        st = self.spec["state"]
        tr = f"Trainer ο σ α ({st})"
        ptxt = "".join(f" ({lname(p)} : {self.LEAN_TY[k]})" for p, k in self.spec["params"].items())
        pargs = "".join(f" {lname(p)}" for p in self.spec["params"])
        env = {p: (lname(p), k) for p, k in self.spec["params"].items()}
        env["self"] = ("self", "trainer")
        if nmvar:
            env[nmvar] = (lname(nmvar), "str")
        env[cellv] = (lname(cellv), "cell")
        env[statev] = (lname(statev), "state")
        env[monv] = (lname(monv), "monitors")
        self.cellvar = lname(cellv)
        leaf = lambda e, a, dd: f"{self.ind(dd)}pure {self.cellvar}\n"   # noqa: E731
        inner = self.block(list(loop.body), env, {}, 1, leaf)
        self.cellvar = None
        lv = " ".join(lname(x) for x in local)
        cell_def = (f"def {self.name}_cell (O : TorchOps ο α) (self : {tr}){ptxt} ({lname(local[0])} : String) "
                    f"({lname(cellv)} : CellS ο σ α) ({lname(statev)} : {st}) ({lname(monv)} : Monitors ο σ α) : "
                    f"Except Err (CellS ο σ α) := do\n" + inner)
        loop_def = (f"def {self.name} (O : TorchOps ο α) (self : {tr}){ptxt} : Except Err ({tr} × Unit) := do\n"
                    f"  let self ← for_units self (fun {lv} => {self.name}_cell O self{pargs} {lv})\n"
                    f"  pure (self, ())\n")
        return cell_def + f"\n/-- the loop of `{self.CLS}.{self.spec['py']}` over the trainer's units -/\n" + loop_def

    # ------------------------------------------------------------------ register_cell / _build_cell_state as data
    def stripped(self):
        return [s for s in self.fdef.body
                if not (isinstance(s, ast.Expr) and isinstance(s.value, ast.Constant) and isinstance(s.value.value, str))]

    def emit_tracecls(self) -> str:
        """the `match state.tracemode:` statement of `_build_cell_state`"""
        found = [s for s in ast.walk(self.fdef) if isinstance(s, ast.Match) and ast.unparse(s.subject) == "state.tracemode"]
        if len(found) != 1 or found[0] not in self.fdef.body:
            self.err(self.fdef, "not exactly one top-level `match state.tracemode:`")
        out = f"def {self.name} (tracemode : String) : Except Err (Option String) :=\n  match tracemode with\n"
        wild = False
        for c in found[0].cases:
            if wild:
                self.err(c.pattern, "case after a wildcard")
            p = c.pattern
            if c.guard is not None:
                self.err(p, "guarded case")
            if isinstance(p, ast.MatchValue) and isinstance(p.value, ast.Constant) and isinstance(p.value.value, str):
                pat = json.dumps(p.value.value)
            elif isinstance(p, ast.MatchAs) and p.pattern is None and p.name is None:
                pat, wild = "_", True
            else:
                self.err(p, "case pattern is not a string literal")
            b = c.body
            if len(b) == 1 and isinstance(b[0], ast.Assign) and len(b[0].targets) == 1 \
                    and ast.unparse(b[0].targets[0]) == "state.tracecls" and isinstance(b[0].value, ast.Name):
                out += f"  | {pat} => pure (some {json.dumps(b[0].value.id)})\n"
            elif len(b) == 1 and isinstance(b[0], ast.Raise) and isinstance(b[0].exc, ast.Call) \
                    and isinstance(b[0].exc.func, ast.Name) and b[0].exc.func.id in progtx.ERRS:
                out += f"  | {pat} => throw Err.{b[0].exc.func.id}\n"
            else:
                self.err(b[0], "case body is neither `state.tracecls = <Class>` nor a raise")
        if not wild:
            out += "  | _ => pure none\n"
        return out

    def emit_register(self) -> str:
        sig = self.sigs[self.name]
        if sig["order"] != ["name", "cell"] or sig["vararg"] or sig["kwarg"] != "kwargs":
            raise TranslateError(f"{self.SRC}::{self.CLS}.{self.spec['py']}", f"signature changed: {sig}")
        body = self.stripped()
        want0 = "cell, state = self.add_cell(name, cell, self._build_cell_state(**kwargs), ['weight'])"
        if len(body) < 3 or ast.unparse(body[0]) != want0:
            self.err(body[0] if body else self.fdef, "first statement is not the add_cell call")
        if ast.unparse(body[-1]) != "return self.get_unit(name)":
            self.err(body[-1], "last statement is not `return self.get_unit(name)`")
        env = {"name": ("name", "cellname"), "cell": ("cell", "regcell"), "state": ("state", "regstate")}
        out = "  let specs := ([] : List (MonitorSpec α))\n"
        mk = None
        count = 0
        for s in body[1:-1]:
            if isinstance(s, ast.Assign) and len(s.targets) == 1 and isinstance(s.targets[0], ast.Name):
                nm = s.targets[0].id
                if nm in env or nm in ("specs", "R"):
                    self.err(s, f"rebinding of {nm}")
                if isinstance(s.value, ast.Dict):
                    if nm != "monitor_kwargs" or mk is not None:
                        self.err(s, "unsupported dictionary")
                    mk = {}
                    for k, v in zip(s.value.keys, s.value.values):
                        if not (isinstance(k, ast.Constant) and isinstance(k.value, str) and isinstance(v, ast.Constant)
                                and isinstance(v.value, bool)) or k.value in mk:
                            self.err(s, "monitor_kwargs entry is not a distinct `str: bool`")
                        mk[k.value] = v.value
                    continue
                v, k = self.reg_ex(s.value, env)
                if k not in ("bool", "scalar"):
                    self.err(s, f"local of kind {k}")
                out += f"  let {lname(nm)} := {v}\n"
                env[nm] = (lname(nm), k)
                continue
            if isinstance(s, ast.Expr) and isinstance(s.value, ast.Call) and ast.unparse(s.value.func) == "self.add_monitor":
                out += f"  let specs := specs ++ [{self.monitor_spec(s.value, env, mk)}]\n"
                count += 1
                continue
            self.err(s, "unsupported statement")
        if not count:
            self.err(self.fdef, "no add_monitor call")
        return (f"def {self.name} (R : {self.spec['env']}) : Except Err (List (MonitorSpec α)) := do\n" + out
                + "  pure specs\n")

    def reg_ex(self, n, env):
        """expressions of `register_cell`: scalars, booleans and strings over the environment `R`"""
        if isinstance(n, ast.Constant) and isinstance(n.value, str):
            return json.dumps(n.value), "str"
        if isinstance(n, ast.BoolOp) and isinstance(n.op, ast.And):
            parts = []
            for x in n.values:
                v, k = self.reg_ex(x, env)
                if k != "bool":
                    self.err(x, f"operand of kind {k}")
                parts.append(self.pure(x, v))
            return "(" + " && ".join(parts) + ")", "bool"
        if isinstance(n, ast.Compare) and len(n.ops) == 1 and isinstance(n.ops[0], (ast.Is, ast.IsNot)) \
                and const_none(n.comparators[0]):
            v, k = self.reg_ex(n.left, env)
            if k == "optscalar":
                return (f"{v}.isNone" if isinstance(n.ops[0], ast.Is) else f"{v}.isSome"), "bool"
            self.err(n, f"comparison with None on kind {k}")
        if isinstance(n, ast.IfExp):
            c, kc = self.reg_ex(n.test, env)
            a, ka = self.reg_ex(n.body, env)
            b, kb = self.reg_ex(n.orelse, env)
            if kc != "bool":
                self.err(n.test, f"condition of kind {kc}")
            opt = lambda v, k: f"(some {v})" if k == "scalar" else v   # noqa: E731
            if ka == kb and ka in ("scalar", "str"):
                k = ka
            elif {ka, kb} <= {"scalar", "optscalar"}:
                a, b, k = opt(a, ka), opt(b, kb), "optscalar"      # the Python value passed on may be None
            else:
                self.err(n, f"conditional expression on kinds {ka}, {kb}")
            if "←" in a or "←" in b:
                return f"(← (if {self.pure(n.test, c)} then (do pure {a}) else (do pure {b})))", k
            return f"(if {c} then {a} else {b})", k
        if isinstance(n, ast.Call) and ast.unparse(n.func) == "abs" and len(n.args) == 1 and not n.keywords:
            x, kx = self.reg_ex(n.args[0], env)
            if kx == "scalar":
                return f"(absv {x})", "scalar"
            self.err(n, f"abs of kind {kx}")
        if isinstance(n, ast.BinOp):
            a, ka = self.reg_ex(n.left, env)
            b, kb = self.reg_ex(n.right, env)
            if (ka, kb) == ("scalar", "scalar") and isinstance(n.op, (ast.Div, ast.Mult, ast.Add)):
                return f"({a} {'/' if isinstance(n.op, ast.Div) else '*' if isinstance(n.op, ast.Mult) else '+'} {b})", "scalar"
            if (ka, kb) == ("optscalar", "scalar") and isinstance(n.op, ast.Add):
                return f"(← opt_add {a} {b})", "scalar"
            self.err(n, f"unsupported arithmetic on kinds {ka}, {kb}")
        if isinstance(n, (ast.Constant, ast.Name, ast.Attribute)):
            v, k = self.ex(n, env)
            if k in ("bool", "scalar", "optscalar", "str"):
                return v, k
            self.err(n, f"value of kind {k}")
        self.err(n, "unsupported expression")

    def boolean(self, n) -> str:
        if isinstance(n, ast.Constant) and isinstance(n.value, bool):
            return "true" if n.value else "false"
        self.err(n, "not a boolean literal")

    def duration(self, n, env) -> str:
        """the Python value passed as `duration=` (an `Option α`: `none` is `None`)"""
        v, k = self.reg_ex(n, env)
        if k == "scalar":
            return f"(some {v})"
        if k == "optscalar":
            return v
        self.err(n, f"duration of kind {k}")

    def inplace(self, kw, env) -> str:
        if "inplace" not in kw:
            return "none"
        v, k = self.reg_ex(kw["inplace"], env)
        if k != "bool":
            self.err(kw["inplace"], f"inplace of kind {k}")
        return f"(some {v})"

    def reducer_spec(self, n, env) -> str:
        if not isinstance(n, ast.Call) or any(k.arg is None for k in n.keywords):
            self.err(n, "reducer")
        kw = {k.arg: k.value for k in n.keywords}
        f = ast.unparse(n.func)
        scalars = []
        for x in n.args:
            v, k = self.reg_ex(x, env)
            if k != "scalar":
                self.err(x, f"reducer argument of kind {k}")
            scalars.append(v)
        if f == "state.tracecls" and len(scalars) == 2 and \
                set(kw) in ({"amplitude", "target", "duration", "inclusive"}, {"amplitude", "target", "duration", "inclusive", "inplace"}):
            amp, kamp = self.reg_ex(kw["amplitude"], env)
            if kamp != "scalar":
                self.err(kw["amplitude"], f"amplitude of kind {kamp}")
            return (f".trace R.tracecls {scalars[0]} {scalars[1]} {amp} {self.boolean(kw['target'])} "
                    f"{self.duration(kw['duration'], env)} {self.boolean(kw['inclusive'])} {self.inplace(kw, env)}")
        if f == "PassthroughReducer" and len(scalars) == 1 and \
                set(kw) in ({"duration", "inclusive"}, {"duration", "inclusive", "inplace"}):
            return (f".passthrough {scalars[0]} {self.duration(kw['duration'], env)} {self.boolean(kw['inclusive'])} "
                    f"{self.inplace(kw, env)}")
        if f == "EligibilityTraceReducer" and len(scalars) == 2 and \
                set(kw) == {"obs_reshape", "cond_reshape", "duration", "inclusive"}:
            resh = []
            for key in ("obs_reshape", "cond_reshape"):
                x = kw[key]
                if not (isinstance(x, ast.Call) and ast.unparse(x.func) == "weakref.WeakMethod" and len(x.args) == 1
                        and not x.keywords and isinstance(x.args[0], ast.Attribute)
                        and ast.unparse(x.args[0].value) == "cell.connection"
                        and x.args[0].attr in ("presyn_receptive", "postsyn_receptive")):
                    self.err(x, "reshape is not a weak reference to a receptive reshape of the cell's connection")
                resh.append(json.dumps(x.args[0].attr))
            return (f".eligibility {scalars[0]} {scalars[1]} {resh[0]} {resh[1]} {self.duration(kw['duration'], env)} "
                    f"{self.boolean(kw['inclusive'])}")
        self.err(n, "unsupported reducer")

    def monitor_spec(self, c: ast.Call, env, mk) -> str:
        if any(k.arg is None for k in c.keywords) or len(c.args) != 5 or any(isinstance(a, ast.Starred) for a in c.args):
            self.err(c, "add_monitor arguments")
        cellname, mon, attr, ctor, unique = c.args
        if not (isinstance(cellname, ast.Name) and env.get(cellname.id, ("", ""))[1] == "cellname"):
            self.err(c, "monitor added to another cell")
        if not (isinstance(mon, ast.Constant) and isinstance(mon.value, str)):
            self.err(mon, "monitor name is not a string literal")
        a, ka = self.reg_ex(attr, env)
        if ka != "str":
            self.err(attr, f"monitored attribute of kind {ka}")
        if not (isinstance(ctor, ast.Call) and not ctor.args
                and ast.unparse(ctor.func) in ("StateMonitor.partialconstructor", "MultiStateMonitor.partialconstructor")):
            self.err(ctor, "monitor constructor")
        multi = ast.unparse(ctor.func).startswith("Multi")
        flags, red, subattrs = {}, None, []
        for k in ctor.keywords:
            if k.arg is None:
                if not (isinstance(k.value, ast.Name) and k.value.id == "monitor_kwargs") or mk is None:
                    self.err(ctor, "unsupported ** argument")
                new = mk
            elif k.arg == "reducer":
                red = k.value
                continue
            elif k.arg == "subattrs" and multi and isinstance(k.value, ast.Tuple) and all(
                    isinstance(e, ast.Constant) and isinstance(e.value, str) for e in k.value.elts):
                subattrs = [json.dumps(e.value) for e in k.value.elts]
                continue
            else:
                new = {k.arg: self.boolean(k.value) == "true"}
            for f, v in new.items():
                if f in flags:
                    self.err(ctor, f"constructor argument {f} given twice")
                flags[f] = v
        if red is None or set(flags) != {"as_prehook", "train_update", "eval_update", "prepend"} or multi != bool(subattrs):
            self.err(ctor, f"constructor arguments {sorted(flags)}")
        tags = []
        for k in c.keywords:
            tv, tk = self.reg_ex(k.value, env)
            con = {"scalar": "num", "bool": "flag", "str": "str"}.get(tk)
            if con is None:
                self.err(k.value, f"tag {k.arg} of kind {tk}")
            tags.append(f"({json.dumps(k.arg)}, .{con} {tv})")
        b = lambda x: "true" if x else "false"   # noqa: E731
        return (f"{{\n      name := {json.dumps(mon.value)}, attr := {a}, multi := {b(multi)}, subattrs := [{', '.join(subattrs)}],\n"
                f"      reducer := {self.reducer_spec(red, env)},\n"
                f"      as_prehook := {b(flags['as_prehook'])}, train_update := {b(flags['train_update'])}, "
                f"eval_update := {b(flags['eval_update'])}, prepend := {b(flags['prepend'])}, "
                f"unique := {self.boolean(unique)},\n"
                f"      tags := [{', '.join(tags)}] }}")


def const_none(n) -> bool:
    return isinstance(n, ast.Constant) and n.value is None


def locate(trees: dict, key: str, spec: dict) -> ast.FunctionDef:
    where = f"{spec['src']}::{spec['cls']}.{spec['py']}"
    cls = next((n for n in trees[spec["src"]][1].body if isinstance(n, ast.ClassDef) and n.name == spec["cls"]), None)
    if cls is None:
        raise TranslateError(spec["src"], f"class {spec['cls']} not found")
    found = [n for n in cls.body if isinstance(n, ast.FunctionDef) and n.name == spec["py"] and not n.decorator_list]
    if len(found) != 1:
        raise TranslateError(where, f"{len(found)} undecorated definitions")
    return found[0]


def signature(f: ast.FunctionDef, where: str) -> dict:
    a = f.args
    pos = [x.arg for x in a.posonlyargs + a.args]
    if not pos or pos[0] != "self":
        raise TranslateError(where, "first parameter is not self")
    return {"order": pos[1:] + [x.arg for x in a.kwonlyargs], "vararg": a.vararg.arg if a.vararg else None,
            "kwarg": a.kwarg.arg if a.kwarg else None}


def regenerate() -> dict:
    """regenerates Gen/STDPProg.lean; same return shape as `progtx.regenerate_class`"""
    T = STDPTx
    trees = {}
    for src in sorted({s["src"] for s in T.METHODS.values()}):
        text = (REPO / src).read_text()
        trees[src] = (text, ast.parse(text))
    fdefs = {k: locate(trees, k, s) for k, s in T.METHODS.items()}
    sigs = {k: signature(f, f"{T.METHODS[k]['src']}::{T.METHODS[k]['cls']}.{f.name}") for k, f in fdefs.items()}
    text = T.HEADER
    info = {}
    for k, s in T.METHODS.items():
        seg = ast.get_source_segment(trees[s["src"]][0], fdefs[k]) or ""
        sha = hashlib.sha256(seg.encode()).hexdigest()[:16]
        what = {"forward": "the loop body for one unit", "register": "the `add_monitor` calls as data",
                "tracecls": "the `match state.tracemode:` statement"}[s["kind"]]
        text += (f"\n/-- from `{s['src']}` :: `{s['cls']}.{s['py']}` (sha256 of source segment {sha}): {what} -/\n"
                 + T(k, fdefs[k], sigs).emit())
        info[k] = sha
    text += f"\nend {T.NAMESPACE}\n"
    p = GEN / T.OUT
    changed = not p.exists() or p.read_text() != text
    if changed:
        p.write_text(text)
    return {"functions": info, "rewritten": changed}


if __name__ == "__main__":
    print(json.dumps(regenerate(), indent=1))
