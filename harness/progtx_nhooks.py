"""Statement-level translator, value hooks (DESIGN §12.5, property C16): the WHOLE BODIES of `normalize`
(`inferno/core/math.py`) and of `Clamping.__init__`, `Clamping.hook`, `Normalization.__init__`, `Normalization.hook`
(`inferno/neural/hooks.py`) → Lean `Except Err` programs over the vocabulary of `Gen/NHookPrelude.lean`, regenerated on
every run as `Gen/NHookProg.lean` (core Lean only, executable, generic in the number type through `PyNum α`).

What is kept from the source, statement by statement and in SOURCE ORDER:
* `normalize`: the test `data.is_floating_point() or data.is_complex()`, the rebinding
  `epsilon = max(epsilon, torch.finfo(data.dtype).tiny)` (Python's builtin `max`, `finfo` failing on an integral dtype) and
  `return scale * F.normalize(data, p=order, dim=dim, eps=epsilon)` with each keyword bound to its parameter.
* `Clamping.__init__`: `argtest.nestedidentifier`, the tuple assignment from `argtest.onedefined(("min", min), ("max", max))`
  (`RuntimeError`), the guarded `argtest.gt("max", max, min, None, limit_name="min")` (`ValueError`), the call
  `StateHook.__init__(self, module, train_update=…, …)` with every keyword bound to the parameter of `StateHook.__init__`
  it names (the signature is read from `inferno/core/infrastructure.py`).
* `Clamping.hook`: `rsetattr(module, self.attribute, torch.clamp(rgetattr(self.module, self.attribute), min=self.clampmin,
  max=self.clampmax))` — which attribute is read, which bounds go where, where the result is written.
* `Normalization.__init__`: the four `argtest` checks in order (`neq` against the literal `0`), `float(epsilon)`, the
  superclass call.  `Normalization.hook`: `rsetattr(…, normalize(rgetattr(…), self.order, self.scale, self.dim,
  epsilon=self.eps))`, the arguments bound through the signature of the translated `normalize`.

Conventions: every `module` parameter and `self.module` (checked to be the property `return self._hooked_module` of
`StateHook`) denote THE module of the world `NW`; `normalize` / `StateHook` must be imported in `hooks.py` with
`from .. import …` and `normalize` re-exported by `inferno/__init__.py` and `inferno/core/__init__.py` from `.math`.
A conditional that falls through is emitted as a joined block returning the state and the locals it rebinds (never a
term-level `if` around an action).  `x is not None and y is not None` on optional numbers is emitted as a `match` that
refines both.  Functions are located by class / name (never by line number); anything outside this sub-language raises
`TranslateError` naming the node.  `Props/C16GlueNHook.lean` proves the generated programs equal to `clampG` /
`normalizeG` of `Model/Hooks.lean` on the value read and written back.
"""
from __future__ import annotations

import ast
import hashlib
import json

import progtx
from progtx import Tx
from translate import GEN, REPO, TranslateError, lname

SRC_HOOKS = "inferno/neural/hooks.py"
SRC_MATH = "inferno/core/math.py"
SRC_INFRA = "inferno/core/infrastructure.py"

# kinds: str num optnum bool order dim ten module dtype unit none zero pair:optnum
LEAN_TY = {"str": "String", "num": "α", "optnum": "Option α", "bool": "Bool", "order": "Order α", "dim": "Dim",
           "ten": "Ten α", "unit": "Unit"}

FLAGS = {"train_update": "bool", "eval_update": "bool", "as_prehook": "bool", "prepend": "bool", "always_call": "bool"}
# functions, in emission order (callees first).  `cls` None = module-level function (no threaded state)
METHODS = {
    "normalize": {"src": SRC_MATH, "cls": None, "py": "normalize",
                  "params": {"data": "ten", "order": "order", "scale": "num", "dim": "dim", "epsilon": "num"},
                  "ret": "ten", "inst": ""},
    "Clamping___init__": {"src": SRC_HOOKS, "cls": "Clamping", "py": "__init__",
                          "params": {"attr": "str", "min": "optnum", "max": "optnum", **FLAGS}, "ret": "unit", "inst": ""},
    "Clamping_hook": {"src": SRC_HOOKS, "cls": "Clamping", "py": "hook", "params": {}, "ret": "unit",
                      "inst": "[Max α] [Min α] "},
    "Normalization___init__": {"src": SRC_HOOKS, "cls": "Normalization", "py": "__init__",
                               "params": {"attr": "str", "order": "order", "scale": "num", "dim": "dim",
                                          "epsilon": "num", **FLAGS}, "ret": "unit", "inst": ""},
    "Normalization_hook": {"src": SRC_HOOKS, "cls": "Normalization", "py": "hook", "params": {}, "ret": "unit",
                           "inst": ""},
}
DROPPED_PARAMS = {"module"}
# own attributes of the two classes: Python attribute -> (field of the Lean structure, kind)
FIELDS = {
    "Clamping": {"attribute": ("attribute_", "str"), "clampmin": ("clampmin", "optnum"), "clampmax": ("clampmax", "optnum")},
    "Normalization": {"attribute": ("attribute_", "str"), "order": ("order", "order"), "scale": ("scale", "num"),
                      "dim": ("dim", "dim"), "eps": ("eps", "num")},
}
STATEHOOK_INIT = ["module", "train_update", "eval_update", "as_prehook", "prepend", "always_call"]

HEADER = """import InfernoVerif.Gen.NHookPrelude
/-! GENERATED by harness/progtx_nhooks.py from inferno/core/math.py (`normalize`) and inferno/neural/hooks.py
(`Clamping.__init__`, `Clamping.hook`, `Normalization.__init__`, `Normalization.hook`) — do not edit.
Whole bodies as `Except Err` programs; methods thread the world `NW` (module, StateHook arguments, own attributes).
Vocabulary: Gen/NHookPrelude.lean. -/
set_option linter.unusedVariables false
namespace InfernoVerif.Gen.NHookProg
open InfernoVerif.Hooks InfernoVerif.Gen.NHookPrelude

variable {α : Type}
"""


def is_none(n) -> bool:
    return isinstance(n, ast.Constant) and n.value is None


class NHookTx(Tx):
    SRC = SRC_HOOKS
    CLS = None
    METHODS = METHODS
    LEAN_TY = LEAN_TY
    STATE_TY = "NW"
    DROPPED_PARAMS = DROPPED_PARAMS
    OUT = "NHookProg.lean"
    NAMESPACE = "InfernoVerif.Gen.NHookProg"
    HEADER = HEADER

    def __init__(self, name: str, fdef: ast.FunctionDef, sigs: dict):
        super().__init__(name, fdef, sigs)
        self.CLS = self.spec["cls"]
        self.SRC = self.spec["src"]
        self.STATE_TY = f"NW ({self.CLS} α) α" if self.CLS else None

    def err(self, node, msg):
        where = f"{self.SRC}::{(self.CLS + '.') if self.CLS else ''}{self.spec['py']}:{getattr(node, 'lineno', '?')}"
        raise TranslateError(where, f"{msg}: {ast.unparse(node)[:140] if isinstance(node, ast.AST) else node}")

    # ------------------------------------------------------------------ expressions
    def self_attr(self, n) -> str | None:
        if self.CLS is not None and isinstance(n, ast.Attribute) and isinstance(n.value, ast.Name) and n.value.id == "self":
            return n.attr
        return None

    def pure_ex(self, n, env, kind=None):
        v, k = self.ex(n, env)
        if "←" in v:
            self.err(n, "operand is not pure")
        if kind is not None and k != kind:
            self.err(n, f"kind {k}, expected {kind}")
        return v, k

    def ex(self, n, env):
        if isinstance(n, ast.Constant):
            if n.value is None:
                return "none", "none"
            if isinstance(n.value, bool):
                return ("true" if n.value else "false"), "bool"
            if type(n.value) is int and n.value == 0:
                return "N.ops.zero", "zero"
            self.err(n, "unsupported constant")
        if isinstance(n, ast.Name):
            if n.id not in env:
                self.err(n, "unknown name")
            return env[n.id]
        a = self.self_attr(n)
        if a is not None:
            if a == "module":
                return "self.module", "module"
            if a in FIELDS[self.CLS]:
                fld, kind = FIELDS[self.CLS][a]
                return f"self.obj.{fld}", kind
            self.err(n, "unknown attribute of self")
        if isinstance(n, ast.Attribute):
            if n.attr == "dtype":
                v, k = self.ex(n.value, env)
                if k == "ten":
                    return f"{v}.dtype", "dtype"
            if n.attr == "tiny" and isinstance(n.value, ast.Call) and ast.unparse(n.value.func) == "torch.finfo" \
                    and len(n.value.args) == 1 and not n.value.keywords:
                v, k = self.ex(n.value.args[0], env)
                if k == "dtype":
                    return f"(← torch_finfo_tiny {v})", "num"
            self.err(n, "unsupported attribute")
        if isinstance(n, ast.BoolOp):
            parts = [self.ex(x, env) for x in n.values]
            if any(k != "bool" for _, k in parts):
                self.err(n, "and/or on operands that are not bool")
            if any("←" in p for p, _ in parts[1:]):
                self.err(n, "operand after the first of and/or is not pure (short-circuit would be lost)")
            return "(" + (" && " if isinstance(n.op, ast.And) else " || ").join(p for p, _ in parts) + ")", "bool"
        if isinstance(n, ast.UnaryOp) and isinstance(n.op, ast.Not):
            v, k = self.ex(n.operand, env)
            if k == "bool":
                return f"(!{v})", "bool"
            self.err(n, f"not on kind {k}")
        if isinstance(n, ast.BinOp) and isinstance(n.op, ast.Mult):
            a_, ka = self.ex(n.left, env)
            b_, kb = self.ex(n.right, env)
            if ka == "num" and kb == "ten":          # Python number * tensor
                return f"(Ten.smul N.ops {a_} {b_})", "ten"
            self.err(n, f"unsupported product of kinds {ka}, {kb}")
        if isinstance(n, ast.Compare) and len(n.ops) == 1 and isinstance(n.ops[0], (ast.Is, ast.IsNot)) \
                and is_none(n.comparators[0]):
            v, k = self.ex(n.left, env)
            if k == "optnum":
                return (f"{v}.isNone" if isinstance(n.ops[0], ast.Is) else f"{v}.isSome"), "bool"
            self.err(n, f"comparison with None on kind {k}")
        if isinstance(n, ast.Call):
            return self.call(n, env)
        self.err(n, "unsupported expression")

    def named_const(self, n) -> bool:
        """a display name handed to an argtest function"""
        return isinstance(n, ast.Constant) and isinstance(n.value, str)

    def call(self, n: ast.Call, env):
        ftxt = ast.unparse(n.func)
        kw = {k.arg: k.value for k in n.keywords}
        if None in kw:
            self.err(n, "**kwargs")
        if any(isinstance(x, ast.Starred) for x in n.args):
            self.err(n, "*args")
        if isinstance(n.func, ast.Name) and n.func.id in env:
            self.err(n, "call of a local name")          # e.g. `max` shadowed by a parameter
        if ftxt == "argtest.nestedidentifier" and len(n.args) == 2 and not kw and self.named_const(n.args[0]):
            v, k = self.ex(n.args[1], env)
            if k == "str":
                return f"(← argtest_nestedidentifier {v})", "str"
        if ftxt == "argtest.onedefined" and len(n.args) == 2 and not kw and all(
                isinstance(x, ast.Tuple) and len(x.elts) == 2 and self.named_const(x.elts[0]) for x in n.args):
            a_, ka = self.pure_ex(n.args[0].elts[1], env)
            b_, kb = self.pure_ex(n.args[1].elts[1], env)
            if (ka, kb) == ("optnum", "optnum"):
                return f"(← argtest_onedefined2 {a_} {b_})", "pair:optnum"
        if ftxt in ("argtest.gt", "argtest.neq") and len(n.args) == 4 and self.named_const(n.args[0]) and is_none(n.args[3]) \
                and set(kw) <= {"limit_name"} and all(self.named_const(x) for x in kw.values()):
            v, kv = self.pure_ex(n.args[1], env)
            l, kl = self.pure_ex(n.args[2], env)
            fn = ftxt.split(".")[1]
            if kv == "num" and kl in ("num", "zero"):
                return f"(← argtest_{fn} N {v} {l})", "num"
            if kv == "order" and kl == "zero" and fn == "neq":
                return f"(← argtest_neq_order N {v} {l})", "order"
        if ftxt == "argtest.dimensions" and len(n.args) == 4 and self.named_const(n.args[0]) and is_none(n.args[2]) \
                and is_none(n.args[3]) and set(kw) == {"permit_none"} and isinstance(kw["permit_none"], ast.Constant) \
                and kw["permit_none"].value is True:
            v, k = self.pure_ex(n.args[1], env)
            if k == "dim":
                return f"(← argtest_dimensions {v})", "dim"
        if ftxt == "float" and len(n.args) == 1 and not kw:
            v, k = self.ex(n.args[0], env)
            if k == "num":
                return f"(py_float {v})", "num"
        if ftxt == "max" and len(n.args) == 2 and not kw:
            a_, ka = self.ex(n.args[0], env)
            b_, kb = self.ex(n.args[1], env)
            if (ka, kb) == ("num", "num"):
                return f"(py_max N {a_} {b_})", "num"
        if ftxt == "rgetattr" and len(n.args) == 2 and not kw:
            m, km = self.pure_ex(n.args[0], env)
            p, kp = self.pure_ex(n.args[1], env)
            if (km, kp) == ("module", "str"):
                return f"(← rgetattr {m} {p})", "ten"
        if ftxt == "torch.clamp":
            b = self.kwargs(n, ["input", "min", "max"])
            if set(b) == {"input", "min", "max"}:
                t, kt = self.ex(b["input"], env)
                lo, klo = self.pure_ex(b["min"], env)
                hi, khi = self.pure_ex(b["max"], env)
                if (kt, klo, khi) == ("ten", "optnum", "optnum"):
                    return f"(← torch_clamp {t} {lo} {hi})", "ten"
        if isinstance(n.func, ast.Attribute) and n.func.attr in ("is_floating_point", "is_complex") and not n.args and not kw:
            v, k = self.ex(n.func.value, env)
            if k == "ten":
                return f"{v}.{n.func.attr}", "bool"
        if ftxt == "F.normalize":
            b = self.kwargs(n, ["input", "p", "dim", "eps", "out"])
            if set(b) == {"input", "p", "dim", "eps"}:        # torch's defaults (p=2.0, dim=1, eps=1e-12) are not guessed
                t, kt = self.ex(b["input"], env)
                p, kp = self.pure_ex(b["p"], env)
                dm, kd = self.pure_ex(b["dim"], env)
                e, ke = self.pure_ex(b["eps"], env)
                if (kt, kp, kd, ke) == ("ten", "order", "dim", "num"):
                    return f"(← F_normalize N.ops {t} {p} {dm} {e})", "ten"
        if ftxt == "normalize" and "normalize" in self.METHODS and self.name != "normalize":
            sig, spec = self.sigs["normalize"], self.METHODS["normalize"]
            b = self.kwargs(n, sig["order"])
            out = []
            for i, p in enumerate(sig["order"]):
                if p not in b:
                    self.err(n, f"argument {p} of normalize left to its default")
                v, k = self.ex(b[p], env) if i == 0 else self.pure_ex(b[p], env)
                if k != spec["params"][p]:
                    self.err(b[p], f"argument {p} of normalize: kind {k}")
                out.append(v)
            return f"(← normalize N {' '.join(out)})", "ten"
        self.err(n, "unsupported call")

    # ------------------------------------------------------------------ statements
    def setobj(self, fld: str, val: str, d) -> str:
        return f"{self.ind(d)}let self := {{ self with obj := {{ self.obj with {fld} := {val} }} }}\n"

    def block(self, stmts, env, alias, d, cont) -> str:
        if stmts:
            s = stmts[0]
            if isinstance(s, ast.Return) and self.CLS is None:
                if s.value is None:
                    self.err(s, "bare return")
                v, k = self.ex(s.value, env)
                if k != self.spec["ret"]:
                    self.err(s, f"returns kind {k}, expected {self.spec['ret']}")
                return f"{self.ind(d)}pure {v}\n"
            if isinstance(s, (ast.With, ast.Return)):
                self.err(s, "unsupported statement")
        return super().block(stmts, env, alias, d, cont)

    def call_stmt(self, c: ast.Call, env, alias, d, nxt) -> str:
        I = self.ind(d)
        ftxt = ast.unparse(c.func)
        if self.CLS is None:
            self.err(c, "call statement in a module-level function")
        if ftxt == "StateHook.__init__" and self.spec["py"] == "__init__" and c.args and ast.unparse(c.args[0]) == "self":
            b = self.kwargs(ast.Call(func=c.func, args=c.args[1:], keywords=c.keywords), STATEHOOK_INIT)
            if set(b) != set(STATEHOOK_INIT):
                self.err(c, "StateHook.__init__ argument left to its default")
            vals = []
            for p in STATEHOOK_INIT:
                v, k = self.pure_ex(b[p], env)
                if k != ("module" if p == "module" else "bool"):
                    self.err(b[p], f"argument {p} of StateHook.__init__: kind {k}")
                vals.append(v)
            return f"{I}let self := (StateHook___init__ self {' '.join(vals)})\n" + nxt(env, alias, d)
        if ftxt == "rsetattr" and len(c.args) == 3 and not c.keywords:
            m, km = self.pure_ex(c.args[0], env)
            p, kp = self.pure_ex(c.args[1], env)
            v, kv = self.ex(c.args[2], env)
            if (km, kp, kv) == ("module", "str", "ten"):
                return f"{I}let self := {{ self with module := (← rsetattr {m} {p} {v}) }}\n" + nxt(env, alias, d)
        self.err(c, "unsupported call statement")

    def assign(self, s: ast.Assign, env, alias, d, nxt) -> str:
        I = self.ind(d)
        t = s.targets[0]
        a = self.self_attr(t)
        if a is not None:
            if a not in FIELDS[self.CLS]:
                self.err(s, "assignment to an unknown attribute of self")
            fld, kind = FIELDS[self.CLS][a]
            v, k = self.ex(s.value, env)
            if k != kind:
                self.err(s, f"self.{a} assigned a value of kind {k}")
            return self.setobj(fld, v, d) + nxt(env, alias, d)
        if isinstance(t, ast.Tuple) and all(self.self_attr(e) in FIELDS.get(self.CLS, {}) for e in t.elts) and len(t.elts) == 2:
            v, k = self.ex(s.value, env)
            kinds = [FIELDS[self.CLS][self.self_attr(e)][1] for e in t.elts]
            if k != "pair:optnum" or kinds != ["optnum", "optnum"]:
                self.err(s, f"tuple assignment from kind {k}")
            self.fresh += 1
            r = f"t{self.fresh}_"
            out = f"{I}let {r} := {v}\n"
            for i, e in enumerate(t.elts):
                out += self.setobj(FIELDS[self.CLS][self.self_attr(e)][0], f"{r}.{i + 1}", d)
            return out + nxt(env, alias, d)
        if isinstance(t, ast.Name) and t.id == "_":
            v, k = self.ex(s.value, env)
            if "←" not in v:
                self.err(s, "dropped value of a pure expression")
            return f"{I}let _ := {v}\n" + nxt(env, alias, d)
        if isinstance(t, ast.Name):
            v, k = self.ex(s.value, env)
            if k not in self.LEAN_TY:
                self.err(s, f"local bound to kind {k}")
            if t.id in env and env[t.id][1] != k:
                self.err(s, "local rebound with another kind")
            env = dict(env)
            env[t.id] = (lname(t.id), k)
            return f"{I}let {lname(t.id)} := {v}\n" + nxt(env, alias, d)
        self.err(s, "unsupported assignment")

    def if_stmt(self, s: ast.If, rest, env, alias, d, cont) -> str:
        body, orelse = list(s.body), list(s.orelse)
        if self.terminates(body) or self.terminates(orelse):
            self.err(s, "conditional with a returning / raising branch")
        return self.join_if(s, body, orelse, rest, env, alias, d, cont)

    def carry(self, names, env):
        items = (["self"] if self.CLS else []) + [env[x][0] for x in names]
        if not items:
            self.err(self.fdef, "conditional without effect")
        return f"({', '.join(items)})" if len(items) > 1 else items[0]

    def join_if(self, s, body, orelse, rest, env, alias, d, cont) -> str:
        I = self.ind(d)
        names = [x for x in self.assigned(body + orelse) if x != "_"]
        if any(x not in env for x in names):
            self.err(s, "conditional binding a new local")
        tup = self.carry(names, env)
        leaf = lambda e, a, dd: f"{self.ind(dd)}pure {self.carry(names, e)}\n"   # noqa: E731
        inner = self.branch(s.test, body, orelse, env, alias, d + 1, leaf)
        return f"{I}let {tup} ← (do\n{inner}{I}  : Except Err _)\n" + self.block(rest, env, alias, d, cont)

    def branch(self, test, body, orelse, env, alias, d, cont) -> str:
        I = self.ind(d)
        # `x is not None [and y is not None …]` on optional numbers refines them
        conj = test.values if isinstance(test, ast.BoolOp) and isinstance(test.op, ast.And) else [test]
        if all(isinstance(c, ast.Compare) and len(c.ops) == 1 and isinstance(c.ops[0], ast.IsNot) and is_none(c.comparators[0])
               and isinstance(c.left, ast.Name) and env.get(c.left.id, ("", ""))[1] == "optnum" for c in conj):
            names = [c.left.id for c in conj]
            if len(set(names)) != len(names):
                self.err(test, "repeated test")
            env_s = dict(env)
            for x in names:
                env_s[x] = (env[x][0], "num")
            out = f"{I}match {', '.join(env[x][0] for x in names)} with\n"
            out += f"{I}| {', '.join('some ' + env[x][0] for x in names)} =>\n" + self.block(body, env_s, alias, d + 1, cont)
            if len(names) == 1:
                out += f"{I}| none =>\n"
            else:
                out += f"{I}| {', '.join('_' for _ in names)} =>\n"
            return out + self.block(orelse, env, alias, d + 1, cont)
        c, kc = self.pure_ex(test, env)
        if kc != "bool":
            self.err(test, f"condition of kind {kc}")
        return (f"{I}if {c} then\n" + self.block(body, env, alias, d + 1, cont)
                + f"{I}else\n" + self.block(orelse, env, alias, d + 1, cont))

    # ------------------------------------------------------------------ whole function
    def emit(self) -> str:
        spec, sig = self.spec, self.sigs[self.name]
        where = f"{self.SRC}::{(self.CLS + '.') if self.CLS else ''}{spec['py']}"
        params = [p for p in sig["order"] if p not in self.DROPPED_PARAMS]
        if params != list(spec["params"]):
            raise TranslateError(where, f"signature changed: {params} (expected {list(spec['params'])})")
        if sig["vararg"] or sig["kwarg"]:
            raise TranslateError(where, "signature changed: *args / **kwargs")
        if self.fdef.decorator_list:
            raise TranslateError(where, "unexpected decorator")
        env = {p: (lname(p), k) for p, k in spec["params"].items()}
        if "module" in sig["order"]:
            if self.CLS is None:
                raise TranslateError(where, "module parameter of a module-level function")
            env["module"] = ("self.module", "module")
        ptxt = "".join(f" ({lname(p)} : {self.LEAN_TY[k]})" for p, k in spec["params"].items())
        ret = self.LEAN_TY[spec["ret"]]
        if self.CLS is None:
            tail = lambda e, a, dd: self.err(self.fdef, "falls off the end without returning")   # noqa: E731
            head = f"def {self.name} {spec['inst']}(N : PyNum α){ptxt} : Except Err ({ret}) := do\n"
        else:
            if spec["ret"] != "unit":
                raise TranslateError(where, "method with a result")
            tail = lambda e, a, dd: f"{self.ind(dd)}pure (self, ())\n"   # noqa: E731
            head = (f"def {self.name} {spec['inst']}(N : PyNum α) (self : {self.STATE_TY}){ptxt} : "
                    f"Except Err ({self.STATE_TY} × {ret}) := do\n")
        return head + self.block(list(self.fdef.body), env, {}, 1, tail)


# ---------------------------------------------------------------------- locating the sources
def signature(where: str, f: ast.FunctionDef, is_method: bool) -> dict:
    a = f.args
    pos = [x.arg for x in a.posonlyargs + a.args]
    if is_method:
        if not pos or pos[0] != "self":
            raise TranslateError(where, "first parameter is not self")
        pos = pos[1:]
    return {"order": pos + [x.arg for x in a.kwonlyargs], "vararg": a.vararg.arg if a.vararg else None,
            "kwarg": a.kwarg.arg if a.kwarg else None, "defaults": {}}


def one(where: str, found: list):
    if len(found) != 1:
        raise TranslateError(where, f"{len(found)} definitions")
    return found[0]


def locate(trees: dict, spec: dict) -> ast.FunctionDef:
    where = f"{spec['src']}::{(spec['cls'] + '.') if spec['cls'] else ''}{spec['py']}"
    body = trees[spec["src"]].body
    if spec["cls"]:
        cls = one(f"{spec['src']}::{spec['cls']}", [n for n in body if isinstance(n, ast.ClassDef) and n.name == spec["cls"]])
        if [ast.unparse(b) for b in cls.bases] != ["StateHook"]:
            raise TranslateError(f"{spec['src']}::{spec['cls']}", "base classes changed (expected StateHook)")
        body = cls.body
    return one(where, [n for n in body if isinstance(n, ast.FunctionDef) and n.name == spec["py"]])


def imports_from(tree, module: str | None, level: int) -> set:
    out = set()
    for n in tree.body:
        if isinstance(n, ast.ImportFrom) and n.module == module and n.level == level:
            out |= {a.asname or a.name for a in n.names if (a.asname or a.name) == a.name}
    return out


def check_environment(trees: dict) -> None:
    """the names the bodies use mean what the vocabulary says they mean"""
    hooks = trees[SRC_HOOKS]
    if not {"StateHook", "normalize"} <= imports_from(hooks, None, 2):
        raise TranslateError(SRC_HOOKS, "`from .. import StateHook, normalize` not found")
    if not {"argtest", "rgetattr", "rsetattr"} <= imports_from(hooks, "_internal", 2):
        raise TranslateError(SRC_HOOKS, "`from .._internal import argtest, rgetattr, rsetattr` not found")
    for n in hooks.body:
        if isinstance(n, (ast.FunctionDef, ast.Assign)) and any(
                x in ast.unparse(n).split("(")[0] for x in ("normalize", "rgetattr", "rsetattr", "StateHook")):
            raise TranslateError(SRC_HOOKS, f"module-level rebinding: {ast.unparse(n)[:80]}")
    for path, mod, level in (("inferno/__init__.py", "core", 1), ("inferno/core/__init__.py", "math", 1)):
        t = ast.parse((REPO / path).read_text())
        if "normalize" not in imports_from(t, mod, level):
            raise TranslateError(path, f"normalize is not imported from .{mod}")
        if "StateHook" not in imports_from(t, "core" if mod == "core" else "infrastructure", 1):
            raise TranslateError(path, "StateHook is not imported from the expected module")
    math_tree = trees[SRC_MATH]
    if not any(isinstance(n, ast.Import) and any(a.name == "torch.nn.functional" and a.asname == "F" for a in n.names)
               for n in math_tree.body):
        raise TranslateError(SRC_MATH, "`import torch.nn.functional as F` not found")
    # StateHook.__init__ / StateHook.module of infrastructure.py
    infra = ast.parse((REPO / SRC_INFRA).read_text())
    sh = one(f"{SRC_INFRA}::StateHook", [n for n in infra.body if isinstance(n, ast.ClassDef) and n.name == "StateHook"])
    init = one(f"{SRC_INFRA}::StateHook.__init__", [n for n in sh.body if isinstance(n, ast.FunctionDef) and n.name == "__init__"])
    if signature("StateHook.__init__", init, True)["order"] != STATEHOOK_INIT or init.args.vararg or init.args.kwarg:
        raise TranslateError(f"{SRC_INFRA}::StateHook.__init__", "signature changed")
    prop = one(f"{SRC_INFRA}::StateHook.module", [n for n in sh.body if isinstance(n, ast.FunctionDef) and n.name == "module"])
    body = [s for s in prop.body if not (isinstance(s, ast.Expr) and isinstance(s.value, ast.Constant))]
    if [ast.unparse(x) for x in prop.decorator_list] != ["property"] or len(body) != 1 \
            or ast.unparse(body[0]) != "return self._hooked_module":
        raise TranslateError(f"{SRC_INFRA}::StateHook.module", "not the property returning `_hooked_module`")


def regenerate() -> dict:
    """regenerates Gen/NHookProg.lean; same return shape as `progtx.regenerate_class`"""
    T = NHookTx
    srcs = {p: (REPO / p).read_text() for p in (SRC_HOOKS, SRC_MATH)}
    trees = {p: ast.parse(s) for p, s in srcs.items()}
    check_environment(trees)
    fdefs = {k: locate(trees, s) for k, s in T.METHODS.items()}
    sigs = {k: signature(k, f, T.METHODS[k]["cls"] is not None) for k, f in fdefs.items()}
    text = T.HEADER
    info = {}
    for k, s in T.METHODS.items():
        seg = ast.get_source_segment(srcs[s["src"]], fdefs[k]) or ""
        sha = hashlib.sha256(seg.encode()).hexdigest()[:16]
        qual = f"{s['cls']}.{s['py']}" if s["cls"] else s["py"]
        text += f"\n/-- from `{s['src']}` :: `{qual}` (sha256 of source segment {sha}) -/\n" + T(k, fdefs[k], sigs).emit()
        info[k] = sha
    text += f"\nend {T.NAMESPACE}\n"
    p = GEN / T.OUT
    changed = not p.exists() or p.read_text() != text
    if changed:
        p.write_text(text)
    return {"functions": info, "rewritten": changed}


if __name__ == "__main__":
    print(json.dumps(regenerate(), indent=1))
