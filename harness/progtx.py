"""Statement-level translator (DESIGN §12.5): whole METHOD BODIES of `RecordTensor`
(`inferno/core/infrastructure.py`) → Lean `Except Err` programs over the private state `RT`
(`Gen/ProgPrelude.lean`), regenerated on every run as `Gen/RingProg.lean` (core Lean only, executable).

Unlike `translate.py` (element-wise formulas over scalars) this translator keeps the *control flow* and
the *tensor-level plumbing* of the methods: the `_ignore` / `isinstance` / shape tests with the exception
class each raises, slicing and `torch.cat` of the out-of-place paths, index assignment / `scatter_` of the
in-place paths, the wrap-around tests, pointer updates, and the calls between methods.  Every torch
primitive maps to a function of `Gen/ProgPrelude.lean` named after it.  `Props/C01Glue.lean` proves the
generated programs equal to the hand-written code-shaped machine `Ring.step` that the refinement theorems
of C01 / C13 are about, so a change to a method body changes a definition under a proof obligation.

The sub-language is exactly what these bodies use; anything else raises `TranslateError` naming the node
(reported as a broken tie, never guessed).  Output style: `do` blocks restricted to `let`, `let ←`, tail
`if` / `match`, `throw`, `pure` — no `let mut`, no early `return` — so that `simp` unfolds them.
"""
from __future__ import annotations

import ast
import hashlib
import os
from pathlib import Path

from translate import GEN, REPO, TranslateError, lname

SRC = "inferno/core/infrastructure.py"
CLS = "RecordTensor"

# kinds: int bool obs stack tlast off offten ivec imat store shape fill optfill optdt unit optobs
LEAN_TY = {
    "int": "Int", "bool": "Bool", "obs": "Obs β", "stack": "Stack β", "tlast": "TimeLast β", "off": "Off",
    "store": "Store (Stack β)", "shape": "List Nat", "fill": "β", "optfill": "Option β", "optdt": "Option DType",
    "unit": "Unit", "optobs": "Option (Obs β)", "ivec": "List Int", "imat": "List (List Int)",
}

# methods, in emission order (callees first); `device` parameters are dropped (CPU only)
METHODS = {
    "read": {"params": {"offset": "int"}, "ret": "obs"},
    "write": {"params": {"obs": "obs", "offset": "int", "inplace": "bool"}, "ret": "unit"},
    "incr": {"params": {"pos": "int"}, "ret": "int"},
    "decr": {"params": {"pos": "int"}, "ret": "int"},
    "align": {"params": {"index": "int"}, "ret": "unit"},
    "initialize": {"params": {"shape": "shape", "dtype": "optdt", "fill": "fill"}, "ret": "store"},
    "reset": {"params": {"fill": "optfill"}, "ret": "unit"},
    "peek": {"params": {}, "ret": "optobs"},
    "pop": {"params": {}, "ret": "optobs"},
    "push": {"params": {"obs": "obs", "inplace": "bool"}, "ret": "unit"},
    "readrange": {"params": {"length": "int", "offset": "off", "forward": "bool"}, "ret": "tlast"},
    "writerange": {"params": {"obs": "tlast", "offset": "off", "forward": "bool", "inplace": "bool"}, "ret": "unit"},
}
DROPPED_PARAMS = {"device"}
ERRS = {"RuntimeError", "ValueError", "TypeError", "AttributeError", "IndexError", "KeyError"}


def mangled(attr: str) -> str:
    return attr[len("_RecordTensor"):] if attr.startswith("_RecordTensor__") else attr


def selfcall(n) -> str | None:
    """`self.<m>(...)` -> m"""
    f = n.func if isinstance(n, ast.Call) else None
    if isinstance(f, ast.Attribute) and isinstance(f.value, ast.Name) and f.value.id == "self":
        return f.attr
    return None


class Tx:
    """Translator of ONE method.  Class-level configuration (override in a subclass to translate another
    class: see `regenerate_class`): SRC, CLS, METHODS, LEAN_TY, STATE_TY, HEADER, OUT (file name under Gen/),
    NAMESPACE, DROPPED_PARAMS.  Vocabulary is extended by overriding `ex` / `call` / `subscript` /
    `call_stmt` / `assign` / `branch` and falling back to `super()`."""
    SRC = SRC
    CLS = CLS
    METHODS = METHODS
    LEAN_TY = LEAN_TY
    STATE_TY = "RT β"
    DROPPED_PARAMS = DROPPED_PARAMS
    OUT = "RingProg.lean"
    NAMESPACE = "InfernoVerif.Gen.RingProg"
    HEADER = None           # set below

    def __init__(self, name: str, fdef: ast.FunctionDef, sigs: dict):
        self.name, self.fdef, self.sigs = name, fdef, sigs
        self.spec = self.METHODS[name]
        self.fresh = 0

    def err(self, node, msg):
        raise TranslateError(f"{self.SRC}::{self.CLS}.{self.name}:{getattr(node, 'lineno', '?')}",
                             f"{msg}: {ast.unparse(node)[:140] if isinstance(node, ast.AST) else node}")

    # ------------------------------------------------------------------ expressions
    def is_self_attr(self, n, attr):
        return (isinstance(n, ast.Attribute) and isinstance(n.value, ast.Name) and n.value.id == "self"
                and mangled(n.attr) == attr)

    def ex(self, n, env) -> tuple[str, str]:
        """-> (lean text, kind); monadic sub-terms are written `(← …)`"""
        if isinstance(n, ast.Constant):
            if isinstance(n.value, bool):
                return ("true" if n.value else "false"), "bool"
            if isinstance(n.value, int):
                return (f"({n.value} : Int)" if n.value >= 0 else f"(-{-n.value} : Int)"), "int"
            if n.value is None:
                return "none", "none"
            self.err(n, "unsupported constant")
        if isinstance(n, ast.Name):
            if n.id not in env:
                self.err(n, "unknown name")
            return env[n.id]
        if isinstance(n, ast.Attribute):
            if self.is_self_attr(n, "__pointer"):
                return "self.pointer", "int"
            if self.is_self_attr(n, "__recordsz"):
                return "self.recordsz", "int"
            if self.is_self_attr(n, "__data"):
                return "self.data", "store"
            if n.attr == "shape":
                v, k = self.ex(n.value, env)
                if k == "obs":
                    return f"{v}.shape", "shape"
                if k == "offten":
                    return f"{v}_shape", "shape"
                if k in ("stack", "tlast"):
                    return v, "fullshape:" + k
            if n.attr == "dtype":
                v, k = self.ex(n.value, env)
                if k in ("obs", "stack"):
                    return f"{v}.dt", "dtype"
            self.err(n, "unsupported attribute")
        if isinstance(n, ast.Tuple) and len(n.elts) == 1 and isinstance(n.elts[0], ast.Starred):
            return self.ex(n.elts[0].value, env)           # (*x.shape,)  ==  x.shape
        if isinstance(n, ast.UnaryOp):
            v, k = self.ex(n.operand, env)
            if isinstance(n.op, ast.Not) and k == "bool":
                return f"(!{v})", "bool"
            if isinstance(n.op, ast.USub) and k == "int":
                return f"(-{v})", "int"
            if isinstance(n.op, ast.USub) and k == "ivec":
                return f"({v}.map (fun a_ => -a_))", "ivec"
            self.err(n, "unsupported unary operation")
        if isinstance(n, ast.BinOp):
            a, ka = self.ex(n.left, env)
            b, kb = self.ex(n.right, env)
            if isinstance(n.op, (ast.Add, ast.Sub)) and ka == "int" and kb == "int":
                return f"({a} {'+' if isinstance(n.op, ast.Add) else '-'} {b})", "int"
            if isinstance(n.op, ast.Add) and ka == "off" and kb == "int":
                return f"({a}.add {b})", "off"
            if isinstance(n.op, ast.Sub) and ka == "offten:unsq" and kb == "ivec":
                return f"(subLast {a} {b})", "imatL"      # time-last index tensor, representation time-major
            self.err(n, f"unsupported arithmetic on kinds {ka}, {kb}")
        if isinstance(n, ast.Compare) and len(n.ops) == 1:
            a, ka = self.ex(n.left, env)
            b, kb = self.ex(n.comparators[0], env)
            op = n.ops[0]
            if ka == "int" and kb == "int":
                sym = {ast.Lt: "<", ast.LtE: "≤", ast.Gt: ">", ast.GtE: "≥", ast.Eq: "=", ast.NotEq: "≠"}.get(type(op))
                if sym:
                    return f"(decide ({a} {sym} {b}))", "bool"
            if ka == "shape" and kb == "shape" and isinstance(op, (ast.Eq, ast.NotEq)):
                return f"(decide ({a} {'=' if isinstance(op, ast.Eq) else '≠'} {b}))", "bool"
            if isinstance(op, (ast.Is, ast.IsNot)) and kb == "none":
                if ka == "optfill":
                    return (f"{a}.isNone" if isinstance(op, ast.Is) else f"{a}.isSome"), "bool"
                if ka == "store":
                    return (f"(isNone {a})" if isinstance(op, ast.Is) else f"(!isNone {a})"), "bool"
            self.err(n, f"unsupported comparison on kinds {ka}, {kb}")
        if isinstance(n, ast.IfExp):
            c, kc = self.ex(n.test, env)
            a, ka = self.ex(n.body, env)
            b, kb = self.ex(n.orelse, env)
            if kc == "bool" and {ka, kb} == {"dtype", "none"}:
                a = f"(some {a})" if ka == "dtype" else "none"
                b = f"(some {b})" if kb == "dtype" else "none"
                return f"(if {c} then {a} else {b})", "optdt"
            self.err(n, "unsupported conditional expression")
        if isinstance(n, ast.Subscript):
            return self.subscript(n, env)
        if isinstance(n, ast.Call):
            return self.call(n, env)
        self.err(n, "unsupported expression")

    def slice_bounds(self, sl, env):
        """`a:b` or `slice(a, b)` -> two `Option Int` texts"""
        if isinstance(sl, ast.Slice):
            if sl.step is not None:
                self.err(sl, "slice step")
            lo, hi = sl.lower, sl.upper
        elif isinstance(sl, ast.Call) and isinstance(sl.func, ast.Name) and sl.func.id == "slice" and len(sl.args) == 2:
            lo, hi = sl.args
            lo = None if isinstance(lo, ast.Constant) and lo.value is None else lo
            hi = None if isinstance(hi, ast.Constant) and hi.value is None else hi
        else:
            return None
        out = []
        for b in (lo, hi):
            if b is None:
                out.append("none")
            else:
                v, k = self.ex(b, env)
                if k != "int":
                    self.err(b, "slice bound must be an int")
                out.append(f"(some {v})")
        return out

    def subscript(self, n, env):
        v, k = self.ex(n.value, env)
        sl = n.slice
        # shapes
        if k.startswith("fullshape:"):
            base = k.split(":")[1]
            if isinstance(sl, ast.Slice) and sl.step is None:
                lo = sl.lower.value if isinstance(sl.lower, ast.Constant) else ("x" if sl.lower else None)
                hi = (sl.upper.operand.value * -1 if isinstance(sl.upper, ast.UnaryOp) and isinstance(sl.upper.operand, ast.Constant)
                      else (sl.upper.value if isinstance(sl.upper, ast.Constant) else ("x" if sl.upper else None)))
                if base == "stack" and lo == 1 and hi is None:
                    return f"{v}.oshape", "shape"                 # data.shape[1:]
                if base == "tlast" and lo is None and hi == -1:
                    return f"{v}.stack.oshape", "shape"           # obs.shape[:-1]
            idx = sl.value if isinstance(sl, ast.Constant) else (-sl.operand.value if isinstance(sl, ast.UnaryOp)
                                                                 and isinstance(sl.op, ast.USub) and isinstance(sl.operand, ast.Constant) else None)
            if base == "stack" and idx == 0:
                return f"({v}.rows.length : Int)", "int"          # data.shape[0]
            if base == "tlast" and idx == -1:
                return f"({v}.stack.rows.length : Int)", "int"    # obs.shape[-1]
            self.err(n, "unsupported shape subscript")
        if k == "stack" and isinstance(sl, ast.Tuple) and len(sl.elts) == 2 and isinstance(sl.elts[1], ast.Constant) \
                and sl.elts[1].value is Ellipsis:
            first = sl.elts[0]
            b = self.slice_bounds(first, env)
            if b is not None:
                return f"({v}.slice {b[0]} {b[1]})", "stack"
            i, ki = self.ex(first, env)
            if ki == "int":
                return f"(← {v}.rowE {i})", "obs"
        self.err(n, f"unsupported subscript on kind {k}")

    def kwargs(self, n: ast.Call, names: list[str], defaults: dict | None = None) -> dict:
        out = {}
        for i, a in enumerate(n.args):
            if i >= len(names):
                self.err(n, "too many positional arguments")
            out[names[i]] = a
        for kw in n.keywords:
            if kw.arg is None:
                self.err(n, "**kwargs")
            out[kw.arg] = kw.value
        return out

    def call(self, n: ast.Call, env):
        f = n.func
        ftxt = ast.unparse(f)
        if ftxt == "_unwind_ptr" and len(n.args) == 3:
            a = [self.ex(x, env) for x in n.args]
            if [k for _, k in a] == ["int", "int", "int"]:
                return f"(InfraF._unwind_ptr {a[0][0]} {a[1][0]} {a[2][0]})", "int"
        if ftxt == "_unwind_tensor_ptr" and len(n.args) == 3:
            a = [self.ex(x, env) for x in n.args]
            if a[0][1] == "int" and a[2][1] == "int" and a[1][1] == "ivec":
                return f"({a[1][0]}.map (fun o_ => InfraF._unwind_tensor_ptr {a[0][0]} o_ {a[2][0]}))", "ivec"
            if a[0][1] == "int" and a[2][1] == "int" and a[1][1] == "imat":
                return f"({a[1][0]}.map (·.map (fun o_ => InfraF._unwind_tensor_ptr {a[0][0]} o_ {a[2][0]})))", "imat"
        if ftxt == "self._ignore" and len(n.args) == 1:
            v, k = self.ex(n.args[0], env)
            if k == "store":
                return f"(ignored {v})", "bool"
            if k == "stack":
                return "false", "bool"
        if ftxt == "isinstance" and len(n.args) == 2:
            v, k = self.ex(n.args[0], env)
            t = ast.unparse(n.args[1])
            if k == "off" and t == "torch.Tensor":
                return v, "isten"
            if k == "store" and t == "nn.UninitializedBuffer | nn.UninitializedParameter":
                return f"(isUninit {v})", "bool"
            if k == "store" and t == "torch.Tensor":
                return f"(isTensor {v})", "bool"
        if ftxt == "torch.cat" and len(n.args) == 2 and isinstance(n.args[0], ast.Tuple) \
                and isinstance(n.args[1], ast.Constant) and n.args[1].value == 0:
            parts = [self.ex(x, env) for x in n.args[0].elts]
            if all(k == "stack" for _, k in parts):
                return f"(cat E [{', '.join(p for p, _ in parts)}])", "stack"
        if ftxt == "ein.rearrange" and len(n.args) == 2 and isinstance(n.args[1], ast.Constant):
            v, k = self.ex(n.args[0], env)
            pat = n.args[1].value
            if pat == "t ... -> ... t" and k == "stack":
                return f"(TimeLast.mk {v})", "tlast"
            if pat == "... t -> t ..." and k == "tlast":
                return f"{v}.stack", "stack"
            if pat == "... t -> t ..." and k == "imatL":
                return v, "imat"
        if isinstance(f, ast.Attribute) and f.attr == "to" and not n.args and [kw.arg for kw in n.keywords] == ["dtype"]:
            v, k = self.ex(f.value, env)
            d, kd = self.ex(n.keywords[0].value, env)
            if kd == "dtype" and k in ("obs", "stack"):
                return f"({v}.to E {d})", k
        if isinstance(f, ast.Attribute) and f.attr == "unsqueeze" and len(n.args) == 1:
            v, k = self.ex(f.value, env)
            a = n.args[0]
            if k == "obs" and isinstance(a, ast.Constant) and a.value == 0:
                return f"{v}.unsqueeze0", "stack"
            if k == "offten" and ast.unparse(a) == "-1":
                return v, "offten:unsq"
        if ftxt == "torch.arange" and len(n.args) == 2:
            a, ka = self.ex(n.args[0], env)
            b, kb = self.ex(n.args[1], env)
            if ka == "int" and kb == "int" and all(kw.arg in ("dtype", "device") for kw in n.keywords):
                return f"(arange {a} {b})", "ivec"
        if ftxt == "torch.gather" and len(n.args) == 3 and ast.unparse(n.args[1]) == "0":
            d, kd = self.ex(n.args[0], env)
            i, ki = self.ex(n.args[2], env)
            if kd == "stack" and ki == "imat":
                return f"(← {d}.gather0E {i})", "stack"
        if ftxt == "torch.scatter" and len(n.args) == 4 and ast.unparse(n.args[1]) == "0":
            d, kd = self.ex(n.args[0], env)
            i, ki = self.ex(n.args[2], env)
            s, ks = self.ex(n.args[3], env)
            if kd == "stack" and ki == "imat" and ks == "stack":
                return f"(← {d}.scatter0E {i} {s})", "stack"
        if isinstance(f, ast.Attribute) and f.attr == "roll" and len(n.args) == 2 and ast.unparse(n.args[1]) == "0":
            v, k = self.ex(f.value, env)
            s, ks = self.ex(n.args[0], env)
            if k == "stack" and ks == "int":
                return f"({v}.roll {s})", "stack"
        if ftxt == "argtest.index" and len(n.args) >= 3:
            v, kv = self.ex(n.args[1], env)
            l, kl = self.ex(n.args[2], env)
            if kv == "int" and kl == "int":
                return f"(← argIndex {v} {l})", "int"
        if ftxt == "full" and len(n.args) == 2:
            kw = {k.arg: k.value for k in n.keywords}
            d, kd = self.ex(n.args[0], env)
            fl, kf = self.ex(n.args[1], env)
            if kd == "store" and kf == "fill" and set(kw) <= {"shape", "dtype", "device"} and "shape" in kw:
                nn, sh = self.full_shape(kw["shape"], env)
                dt, kdt = self.ex(kw["dtype"], env) if "dtype" in kw else ("none", "optdt")
                if kdt == "optdt":
                    return f"(fullLike {d} {fl} {nn} {sh} {dt})", "stack"
        if ftxt == "torch.full" and len(n.args) == 2:
            kw = {k.arg: k.value for k in n.keywords}
            nn, sh = self.full_shape(n.args[0], env)
            fl, kf = self.ex(n.args[1], env)
            dt, kdt = self.ex(kw["dtype"], env) if "dtype" in kw else ("none", "optdt")
            if kf == "fill" and kdt == "optdt" and set(kw) <= {"dtype", "device"}:
                return f"(torchFull {fl} {nn} {sh} {dt})", "stack"
        # calls between methods
        if selfcall(n) in self.METHODS:
            return self.method_call(n, f.attr, env), "call:" + self.METHODS[f.attr]["ret"]
        self.err(n, "unsupported call")

    def full_shape(self, node, env):
        """`(recordsz, *shape)` -> (leading length, observation shape)"""
        if isinstance(node, ast.Tuple) and len(node.elts) == 2 and isinstance(node.elts[1], ast.Starred):
            a, ka = self.ex(node.elts[0], env)
            b, kb = self.ex(node.elts[1].value, env)
            if ka == "int" and kb == "shape":
                return a, b
        self.err(node, "unsupported shape expression")

    def method_call(self, n: ast.Call, callee: str, env) -> str:
        sig = self.sigs[callee]
        given = self.kwargs(n, sig["order"])
        args = []
        for p in sig["order"]:
            if p in self.DROPPED_PARAMS:
                continue
            kind = self.METHODS[callee]["params"][p]
            if p in given:
                node = given[p]
            elif p in sig["defaults"]:
                node = sig["defaults"][p]
            else:
                self.err(n, f"missing argument {p}")
            if kind == "fill" and isinstance(node, ast.Constant) and node.value == 0:
                args.append("E.zero")
                continue
            if kind == "off":
                v, k = self.ex(node, env)
                args.append(f"(Off.int {v})" if k == "int" else v)
                continue
            v, k = self.ex(node, env)
            if k != kind and not (kind == "optdt" and k == "none"):
                self.err(node, f"argument {p} of {callee}: kind {k}, expected {kind}")
            args.append(v)
        return f"(← {self.CLS}_{callee} E self {' '.join(args)})".replace("  ", " ")

    # ------------------------------------------------------------------ statements
    def terminates(self, stmts) -> bool:
        if not stmts:
            return False
        s = stmts[-1]
        if isinstance(s, (ast.Return, ast.Raise)):
            return True
        if isinstance(s, ast.If):
            return bool(s.orelse) and self.terminates(s.body) and self.terminates(s.orelse)
        if isinstance(s, ast.With):
            return self.terminates(s.body)
        return False

    def assigned(self, stmts) -> list[str]:
        """plain local names (re)bound by the statements (for carrying through a non-terminating `if`)"""
        out = []
        for s in stmts:
            if isinstance(s, ast.Assign):
                for t in s.targets:
                    for e in (t.elts if isinstance(t, ast.Tuple) else [t]):
                        if isinstance(e, ast.Name) and e.id not in out:
                            out.append(e.id)
            elif isinstance(s, ast.If):
                for x in self.assigned(s.body) + self.assigned(s.orelse):
                    if x not in out:
                        out.append(x)
            elif isinstance(s, ast.With):
                for x in self.assigned(s.body):
                    if x not in out:
                        out.append(x)
        return out

    def ind(self, d):
        return "  " * d

    def block(self, stmts, env, alias, d, cont) -> str:
        """`cont(env, alias, d)` produces the text that follows when the block falls through"""
        if not stmts:
            return cont(env, alias, d)
        s, rest = stmts[0], stmts[1:]
        I = self.ind(d)
        nxt = lambda e, a, dd: self.block(rest, e, a, dd, cont)   # noqa: E731
        if isinstance(s, ast.Expr) and isinstance(s.value, ast.Constant) and isinstance(s.value.value, str):
            return nxt(env, alias, d)
        if isinstance(s, ast.Assert):
            return nxt(env, alias, d)
        if isinstance(s, ast.With) and all(ast.unparse(i.context_expr) == "torch.no_grad()" for i in s.items):
            return self.block(list(s.body) + rest, env, alias, d, cont)
        if isinstance(s, ast.Raise):
            exc = s.exc.func.id if isinstance(s.exc, ast.Call) and isinstance(s.exc.func, ast.Name) else None
            if exc not in ERRS:
                self.err(s, "unsupported exception")
            return f"{I}throw Err.{exc}\n"
        if isinstance(s, ast.Return):
            if s.value is None:
                return f"{I}pure (self, ())\n"
            v, k = self.ex(s.value, env)
            want = self.spec["ret"]
            if k == "none" and want == "optobs":
                v = "none"
            elif k == "call:obs" and want == "optobs":
                return f"{I}let r_ := {v}\n{I}pure (r_.1, some r_.2)\n"
            elif k.startswith("call:") and k[5:] == want:
                return f"{I}pure {v}\n"
            elif k != want:
                self.err(s, f"returns kind {k}, expected {want}")
            return f"{I}pure (self, {v})\n"
        if isinstance(s, ast.Expr) and isinstance(s.value, ast.Call):
            return self.call_stmt(s.value, env, alias, d, nxt)
        if isinstance(s, ast.Assign) and len(s.targets) == 1:
            return self.assign(s, env, alias, d, nxt)
        if isinstance(s, ast.If):
            return self.if_stmt(s, rest, env, alias, d, cont)
        self.err(s, "unsupported statement")

    def call_stmt(self, c: ast.Call, env, alias, d, nxt) -> str:
        I = self.ind(d)
        f = c.func
        if selfcall(c) in self.METHODS:
            v = self.method_call(c, f.attr, env)
            env2 = dict(env)
            return f"{I}let self := {v}.1\n" + nxt(self.refresh(env2, alias), alias, d)
        # in-place tensor methods on a local that may alias self.__data
        if isinstance(f, ast.Attribute) and isinstance(f.value, ast.Name) and f.value.id in env:
            nm = f.value.id
            v, k = env[nm]
            new = None
            if f.attr == "fill_" and len(c.args) == 1 and k == "stack":
                a, ka = self.ex(c.args[0], env)
                if ka == "optfill:some":
                    new = f"({v}.fill E {a})"
            if f.attr == "fill_" and len(c.args) == 1 and k == "store":
                a, ka = self.ex(c.args[0], env)
                if ka == "fill":
                    new = f"(storeFill E {v} {a})"
            if f.attr == "scatter_" and len(c.args) == 3 and ast.unparse(c.args[0]) == "0" and k == "stack":
                i, ki = self.ex(c.args[1], env)
                s_, ks = self.ex(c.args[2], env)
                if ki == "imat" and ks == "stack":
                    new = f"(← {v}.scatter0E {i} {s_})"
            if f.attr == "materialize" and k == "store" and len(c.args) == 1:
                kw = {x.arg: x.value for x in c.keywords}
                nn, sh = self.full_shape(c.args[0], env)
                dt, kdt = self.ex(kw["dtype"], env) if "dtype" in kw else ("none", "optdt")
                if kdt == "optdt" and set(kw) <= {"dtype", "device"}:
                    new = f"(materialize E {v} {nn} {sh} {dt})"
            if new is not None:
                return self.inplace(nm, new, env, alias, d, nxt)
        self.err(c, "unsupported call statement")

    def inplace(self, nm, new, env, alias, d, nxt) -> str:
        """an in-place operation on local `nm`: rebinds it and, when it aliases `self.__data`, writes through"""
        I = self.ind(d)
        v, k = env[nm]
        out = f"{I}let {v} := {new}\n"
        if alias.get(nm):
            out += f"{I}let self := {{ self with data := {'Store.ofStack ' + v if k == 'stack' else v} }}\n"
        return out + nxt(env, alias, d)

    def refresh(self, env, alias):
        return env

    def assign(self, s: ast.Assign, env, alias, d, nxt) -> str:
        I = self.ind(d)
        t = s.targets[0]
        # tuple unpacking of private state
        if isinstance(t, ast.Tuple) and isinstance(s.value, ast.Tuple) and len(t.elts) == len(s.value.elts):
            out = ""
            env, alias = dict(env), dict(alias)
            for a, b in zip(t.elts, s.value.elts):
                if not isinstance(a, ast.Name):
                    self.err(s, "unsupported tuple target")
                v, k = self.ex(b, env)
                out += f"{I}let {lname(a.id)} := {v}\n"
                env[a.id] = (lname(a.id), k)
                alias[a.id] = self.is_self_attr(b, "__data")
            return out + nxt(env, alias, d)
        if isinstance(t, ast.Name):
            v, k = self.ex(s.value, env)
            if k.startswith("call:"):
                v, k = f"{v}.2", k[5:]
            env, alias = dict(env), dict(alias)
            env[t.id] = (lname(t.id), k)
            alias[t.id] = self.is_self_attr(s.value, "__data")
            return f"{I}let {lname(t.id)} := {v}\n" + nxt(env, alias, d)
        if self.is_self_attr(t, "__pointer"):
            v, k = self.ex(s.value, env)
            if k != "int":
                self.err(s, "pointer must be an int")
            return f"{I}let self := {{ self with pointer := {v} }}\n" + nxt(env, alias, d)
        if self.is_self_attr(t, "__data"):
            v, k = self.ex(s.value, env)
            if k != "stack":
                self.err(s, f"self.__data assigned a value of kind {k}")
            alias = {a: False for a in alias}                # locals keep referring to the OLD tensor
            return f"{I}let self := {{ self with data := Store.ofStack {v} }}\n" + nxt(env, alias, d)
        # index assignment  data[i, ...] = x   /   data[idx, ...] = x
        if isinstance(t, ast.Subscript) and isinstance(t.value, ast.Name) and t.value.id in env \
                and isinstance(t.slice, ast.Tuple) and len(t.slice.elts) == 2 \
                and isinstance(t.slice.elts[1], ast.Constant) and t.slice.elts[1].value is Ellipsis:
            nm = t.value.id
            dv, dk = env[nm]
            i, ki = self.ex(t.slice.elts[0], env)
            x, kx = self.ex(s.value, env)
            if dk == "stack" and ki == "int" and kx == "obs":
                return self.inplace(nm, f"(← {dv}.setRowE E {i} {x})", env, alias, d, nxt)
            if dk == "stack" and ki == "ivec" and kx == "stack":
                return self.inplace(nm, f"(← {dv}.indexPutE E {i} {x})", env, alias, d, nxt)
        self.err(s, "unsupported assignment")

    def carry(self, names, env):
        tup = ", ".join(["self"] + [env[x][0] for x in names])
        return f"({tup})" if names else "self"

    def if_stmt(self, s: ast.If, rest, env, alias, d, cont) -> str:
        I = self.ind(d)
        body, orelse = list(s.body), list(s.orelse)
        # `if c: x = e` with nothing else: a conditional rebinding
        if not orelse and len(body) == 1 and isinstance(body[0], ast.Assign) and isinstance(body[0].targets[0], ast.Name):
            c, kc = self.ex(s.test, env)
            nm = body[0].targets[0].id
            if kc == "bool" and nm in env:
                v, k = self.ex(body[0].value, env)
                if k == env[nm][1]:
                    return f"{I}let {env[nm][0]} := if {c} then {v} else {env[nm][0]}\n" + self.block(rest, env, alias, d, cont)
        if self.terminates(body) and not self.terminates(orelse):
            # the statements after the `if` are its else-continuation
            orelse, rest = orelse + rest, []
        if not self.terminates(body) or (orelse and not self.terminates(orelse)) and rest:
            if rest:
                return self.join_if(s, body, orelse, rest, env, alias, d, cont)
        return self.branch(s.test, body, orelse, env, alias, d, cont if not rest else
                           (lambda e, a, dd: self.block(rest, e, a, dd, cont)))

    def branch(self, test, body, orelse, env, alias, d, cont) -> str:
        """tail-position conditional; `cont` follows a branch that falls through"""
        I = self.ind(d)
        neg = False
        t = test
        if isinstance(t, ast.UnaryOp) and isinstance(t.op, ast.Not):
            neg, t = True, t.operand
        # refinement tests
        if isinstance(t, ast.Call) and ast.unparse(t.func) == "self._ignore" and len(t.args) == 1:
            arg = t.args[0]
            if isinstance(arg, ast.Name) and env.get(arg.id, ("", ""))[1] == "store":
                nm, sv = arg.id, env[arg.id][0]
                al = alias.get(nm, False)
            elif self.is_self_attr(arg, "__data"):
                nm, sv, al = None, "self.data", True
            else:
                nm = None
                sv = None
            if sv is not None:
                ign, live = (orelse, body) if neg else (body, orelse)
                env_l, alias_l = dict(env), dict(alias)
                bound = nm if nm is not None else "data_"
                if nm is not None:
                    env_l[nm] = (nm, "stack")
                    alias_l[nm] = al
                out = f"{I}match {sv} with\n{I}| .init _ _ {bound} =>\n"
                out += self.block(live, env_l, alias_l, d + 1, cont)
                out += f"{I}| _ =>\n" + self.block(ign, env, alias, d + 1, cont)
                return out
        tk = self.ex(t, env)[1] if isinstance(t, ast.Call) and ast.unparse(t.func) == "isinstance" else ""
        if tk == "isten":
            v = self.ex(t, env)[0]
            nm = t.args[0].id
            ten, sca = (orelse, body) if neg else (body, orelse)
            env_i, env_t = dict(env), dict(env)
            env_i[nm] = (nm, "int")
            env_t[nm] = (nm, "offten")
            out = f"{I}match {v} with\n{I}| .int {nm} =>\n" + self.block(sca, env_i, alias, d + 1, cont)
            out += f"{I}| .ten {nm}_shape {nm} =>\n" + self.block(ten, env_t, alias, d + 1, cont)
            return out
        c, kc = self.ex(test, env)
        if kc != "bool":
            self.err(test, f"condition of kind {kc}")
        env_b = env
        # `fill is not None` refines the optional fill
        if isinstance(test, ast.Compare) and isinstance(test.ops[0], (ast.IsNot, ast.Is)) and isinstance(test.left, ast.Name) \
                and env.get(test.left.id, ("", ""))[1] == "optfill":
            nm = test.left.id
            some_b, none_b = (body, orelse) if isinstance(test.ops[0], ast.IsNot) else (orelse, body)
            env_s = dict(env)
            env_s[nm] = (nm, "optfill:some")
            out = f"{I}match {env[nm][0]} with\n{I}| some {nm} =>\n" + self.block(some_b, env_s, alias, d + 1, cont)
            out += f"{I}| none =>\n" + self.block(none_b, env, alias, d + 1, cont)
            return out
        out = f"{I}if {c} then\n" + self.block(body, env_b, alias, d + 1, cont)
        out += f"{I}else\n" + self.block(orelse, env_b, alias, d + 1, cont)
        return out

    def join_if(self, s, body, orelse, rest, env, alias, d, cont) -> str:
        """a conditional that falls through into `rest`: its branches return the state (and the locals they
        rebind), then `rest` continues"""
        I = self.ind(d)
        names = [x for x in self.assigned(body + orelse) if x in env and env[x][1] not in ("store", "stack")]
        tup = self.carry(names, env)
        leaf = lambda e, a, dd: f"{self.ind(dd)}pure {self.carry(names, e)}\n"   # noqa: E731
        inner = self.branch(s.test, body, orelse, env, alias, d + 1, leaf)
        out = f"{I}let {tup} ← (do\n{inner}{I}  : Except Err _)\n"
        # locals that alias self.__data are re-read from the state after the join
        out2 = ""
        for nm, al in alias.items():
            if al and nm in env:
                out2 += f"{I}let {env[nm][0]} := self.data\n"
        return out + out2 + self.block(rest, env, alias, d, cont)

    # ------------------------------------------------------------------ whole method
    def emit(self) -> str:
        params = [p for p in self.sigs[self.name]["order"] if p not in self.DROPPED_PARAMS]
        if params != list(self.spec["params"]):
            raise TranslateError(f"{self.SRC}::{self.CLS}.{self.name}", f"signature changed: {params} (expected {list(self.spec['params'])})")
        env = {p: (lname(p), k) for p, k in self.spec["params"].items()}
        ptxt = " ".join(f"({lname(p)} : {self.LEAN_TY[k]})" for p, k in self.spec["params"].items())
        ret = self.LEAN_TY[self.spec["ret"]]
        tail = (lambda e, a, dd: f"{self.ind(dd)}pure (self, ())\n") if self.spec["ret"] == "unit" else \
               (lambda e, a, dd: self.err(self.fdef, "falls off the end without returning"))
        body = self.block(list(self.fdef.body), env, {}, 1, tail)
        return (f"def {self.CLS}_{self.name} (E : Elem β) (self : {self.STATE_TY}) {ptxt} : Except Err ({self.STATE_TY} × {ret}) := do\n"
                .replace("  :", " :") + body)


HEADER = """import InfernoVerif.Gen.ProgPrelude
import InfernoVerif.Gen.InfraF
/-! GENERATED by harness/progtx.py from inferno/core/infrastructure.py (class RecordTensor) — do not edit.
Whole method bodies as `Except Err` programs over the private state `RT`; vocabulary: Gen/ProgPrelude.lean. -/
set_option linter.unusedVariables false
namespace InfernoVerif.Gen.RingProg
open InfernoVerif.Ring InfernoVerif.Gen InfernoVerif.Gen.Prog

variable {β : Type}
"""


Tx.HEADER = HEADER


def regenerate_class(T=Tx) -> dict:
    """regenerates Gen/<T.OUT> from the methods T.METHODS of class T.CLS in T.SRC"""
    src = (REPO / T.SRC).read_text()
    tree = ast.parse(src)
    cls = next((n for n in tree.body if isinstance(n, ast.ClassDef) and n.name == T.CLS), None)
    if cls is None:
        raise TranslateError(T.SRC, f"class {T.CLS} not found")
    fdefs = {}
    for n in cls.body:
        if isinstance(n, ast.FunctionDef) and n.name in T.METHODS:
            decs = [ast.unparse(d) for d in n.decorator_list]
            want = T.METHODS[n.name].get("decorator")          # e.g. "dt.setter" to pick a property setter
            if (want is None and not decs) or (want is not None and want in decs):
                fdefs[n.name] = n
    missing = [m for m in T.METHODS if m not in fdefs]
    if missing:
        raise TranslateError(f"{T.SRC}::{T.CLS}", f"methods not found: {missing}")
    sigs = {}
    for m, f in fdefs.items():
        a = f.args
        order = [x.arg for x in a.posonlyargs + a.args + a.kwonlyargs if x.arg != "self"]
        pos = [x.arg for x in a.posonlyargs + a.args if x.arg != "self"]
        defaults = dict(zip(pos[len(pos) - len(a.defaults):], a.defaults))
        defaults.update({x.arg: dflt for x, dflt in zip(a.kwonlyargs, a.kw_defaults) if dflt is not None})
        sigs[m] = {"order": order, "defaults": defaults}
    text = T.HEADER
    info = {}
    for m in T.METHODS:
        seg = ast.get_source_segment(src, fdefs[m]) or ""
        sha = hashlib.sha256(seg.encode()).hexdigest()[:16]
        text += f"\n/-- from `{T.SRC}` :: `{T.CLS}.{m}` (sha256 of source segment {sha}) -/\n" + T(m, fdefs[m], sigs).emit()
        info[m] = sha
    text += f"\nend {T.NAMESPACE}\n"
    p = GEN / T.OUT
    changed = not p.exists() or p.read_text() != text
    if changed:
        p.write_text(text)
    return {"functions": info, "rewritten": changed}


def regenerate() -> dict:
    return regenerate_class(Tx)


if __name__ == "__main__":
    import json
    print(json.dumps(regenerate(), indent=1))
