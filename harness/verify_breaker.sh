#!/bin/bash
# usage: harness/verify_breaker.sh C07 [note] [worktree suffix] [id offset]  — confirm the three changes a breaker left in /tmp/brk-c07/out/{1,2,3},
# run the property's check against each in the scratch worktree, store them under /verif/seeded/.
P=$1; lc=$(echo $P | tr A-Z a-z); WT=/tmp/brk-$lc$3; OUTD=/tmp/vb-out-$lc$3; START=${4:-0}
cd $WT || exit 1
git checkout -q -- . ; git checkout -q --detach main
for n in 1 2 3; do
  [ -d out/$n ] || continue
  echo "=== $P change $n"
  PYTHONPATH=$WT /venv/bin/python out/$n/demo.py > /dev/null 2>&1; c=$?
  git apply out/$n/patch.diff || { echo "patch does not apply at main"; continue; }
  PYTHONPATH=$WT /venv/bin/python out/$n/demo.py > /dev/null 2>&1; p=$?
  echo "demo clean rc=$c patched rc=$p"
  rm -rf $OUTD
  VERIF_OUT_DIR=$OUTD VERIF_REPO=$WT /verif/check $P 2>&1 | grep -E "VIOLATION|KNOWN|tier=|HARNESS|TIMEOUT" | head -5
  git checkout -q -- .
  r=$(ls $OUTD/replays/$P-0-*.json 2>/dev/null | head -1)
  if [ "$c" = 0 ] && [ "$p" != 0 ]; then
    (cd /verif && /venv/bin/python harness/store_seeded.py $P $((n+START)) $WT/out/$n ${r:--} "${2:-}")
  else
    echo "NOT CONFIRMED (demo rc clean=$c patched=$p) — not stored"
  fi
  rm -rf $OUTD
done
